#!/bin/sh
# Soak: run the quick tier of every check for a range of VERIF_SEED values; print only alarms.
# usage: soak.sh <first-seed> <last-seed> [ids...]
A=$1; B=$2; shift 2
IDS="${*:-C04 C08 C13 C14 C15 C18}"
export CBISIM_SCRATCH=${CBISIM_SCRATCH:-/dev/shm/soak$$}
mkdir -p "$CBISIM_SCRATCH"
s=$A
while [ "$s" -le "$B" ]; do
  for id in $IDS; do
    VERIF_SEED=$s ./check "$id" quick > "$CBISIM_SCRATCH/out.txt" 2>&1
    rc=$?
    echo "seed=$s id=$id rc=$rc $(tail -1 "$CBISIM_SCRATCH/out.txt" | cut -c1-160)"
    if [ $rc -ne 0 ]; then grep -E "VIOLATION|HARNESS-ERROR|class=" "$CBISIM_SCRATCH/out.txt" | cut -c1-1200; fi
  done
  s=$((s+1))
done
rm -rf "$CBISIM_SCRATCH"
