"""World model: the complete input of one simulated analysis, as JSON-able data.

world = {
  "root":   "proj/src",                     # analysis root, relative to the scratch top
  "files":  {relpath: {"lang": "c"|"f90", "items": [Item...]} | {"lang":..., "text": str}},
  "dirs":   [relpath, ...],                  # extra (possibly empty) directories
  "links":  [{"path": relpath, "target": str}],     # symlinks; target text as written
  "platforms": [{"name": str, "db": relpath, "entries": [Entry...]}],
  "excludes": [pattern, ...],
  "cbi_config": None | str,                  # contents of <root>/.cbi/config
}
Entry = {"file": str, "directory": str (optional), "arguments": [str] | "command": str}
Strings in entries may contain the placeholder @TOP@ (absolute path of the scratch top).

Item =  ["code", n] | ["blank"] | ["comment"] | ["define", name, value|None] | ["undef", name]
      | ["include", "q"|"a"|"m", spelling] | ["once"] | ["directive", text]
      | ["raw", [line...]] (verbatim; not understood by the reference model)
      | ["bcomment", n] (block comment of n+2 lines) | ["define", name, value, "ml"] (continued, 2 lines)
      | ["cond", [[kind, expr, [Item...]], ...]]          kind in if ifdef ifndef elif else
expr (if/elif) = ["def",X] | ["ndef",X] | ["val",X] | ["eq",X,k] | ["gt",X,k]
               | ["and",e,e] | ["or",e,e] | ["not",e]     ;  ifdef/ifndef: macro name string

Every item renders to a fixed number of physical lines, so the reference model can compute
line numbers from the tree alone.
"""
import json
import os
import shlex
import shutil

TOP = "@TOP@"


def render_expr(e):
    k = e[0]
    if k == "def":
        return f"defined({e[1]})"
    if k == "ndef":
        return f"!defined({e[1]})"
    if k == "defsp":
        return f"defined {e[1]}"
    if k == "val":
        return str(e[1])
    if k == "eq":
        return f"{e[1]} == {e[2]}"
    if k == "gt":
        return f"{e[1]} > {e[2]}"
    if k == "and":
        return f"({render_expr(e[1])} && {render_expr(e[2])})"
    if k == "or":
        return f"({render_expr(e[1])} || {render_expr(e[2])})"
    if k == "not":
        return f"!({render_expr(e[1])})"
    raise ValueError(f"bad expr {e!r}")


PROSE = ["this isn't compiled any more", 'TODO: say "hello', "int big = 8'100;", "doesn't work, don't enable",
         "see the user's guide"]


def render_items(items, lang, fid, out):
    """Append (kind, text) for every physical line. kind: code|dir|blank|comment."""
    for it in items:
        t = it[0]
        if t == "code":
            for _ in range(it[1]):
                ln = len(out) + 1
                if len(it) > 2 and lang != "f90":
                    # free text where a compiler never looks (a disabled block): prose with an apostrophe, an open
                    # quote, a C++14 digit separator
                    out.append(("code", PROSE[it[2] % len(PROSE)]))
                elif lang == "f90":
                    out.append(("code", f"      x{fid}_{ln} = 1"))
                else:
                    out.append(("code", f"int F{fid}_L{ln};"))
        elif t == "blank":
            # optional second element: a line holding only a form feed / vertical tab (page separators)
            out.append(("blank", {"ff": "\x0c", "vt": "\x0b"}.get(it[1] if len(it) > 1 else None, "")))
        elif t == "comment":
            out.append(("comment", "! note" if lang == "f90" else "// note"))
        elif t == "raw":
            # verbatim lines (only for engines whose oracle needs no reference model)
            for text in it[1]:
                out.append(("dir" if text.lstrip().startswith("#") else "code", text))
        elif t == "bcomment" and lang == "f90":
            for _ in range(it[1] + 2):
                out.append(("comment", "! block"))
        elif t == "bcomment":
            out.append(("comment", "/* block"))
            for _ in range(it[1]):
                out.append(("comment", "   #define NOT_A_DIRECTIVE 1"))
            out.append(("comment", "*/"))
        elif t == "define" and len(it) > 3 and it[3] == "ml" and it[2] is not None:
            # a backslash-continued directive: two physical lines, both counted
            out.append(("dir", f"#define {it[1]} \\"))
            out.append(("dir", f"    {it[2]}"))
        elif t == "define":
            out.append(("dir", f"#define {it[1]}" + ("" if it[2] is None else f" {it[2]}")))
        elif t == "undef":
            out.append(("dir", f"#undef {it[1]}"))
        elif t == "include":
            style = it[3] if len(it) > 3 else None
            kw = {"sp": "#  include", "tab": "#\tinclude", "lead": "  #include"}.get(style, "#include")
            tail = {"cmt": " /* why */", "lcmt": " // why"}.get(style, "") if lang != "f90" else ""
            if it[1] == "q":
                out.append(("dir", f'{kw} "{it[2]}"{tail}'))
            elif it[1] == "a":
                out.append(("dir", f"{kw} <{it[2]}>{tail}"))
            else:
                out.append(("dir", f"{kw} {it[2]}{tail}"))
        elif t == "once":
            out.append(("dir", "#pragma once"))
        elif t == "directive":
            out.append(("dir", it[1]))
        elif t == "cond":
            for kind, e, body in it[1]:
                if kind == "else":
                    out.append(("dir", "#else"))
                elif kind in ("ifdef", "ifndef"):
                    out.append(("dir", f"#{kind} {e}"))
                else:
                    out.append(("dir", f"#{kind} {render_expr(e)}"))
                render_items(body, lang, fid, out)
            out.append(("dir", "#endif"))
        else:
            raise ValueError(f"bad item {it!r}")


def file_ids(world):
    return {p: i for i, p in enumerate(sorted(world["files"]))}


def render_file(world, path):
    """-> list of (kind, text) physical lines (text files: kind 'raw')."""
    f = world["files"][path]
    if "text" in f:
        return [("raw", l) for l in f["text"].split("\n")[:-1]] if f["text"].endswith("\n") else [
            ("raw", l) for l in f["text"].split("\n")
        ]
    out = []
    ids = file_ids(world)
    # a byte-identical copy (duplicate class) renders with the id of its original
    fid = ids.get(f.get("copy_of"), ids[path])
    render_items(f["items"], f.get("lang", "c"), fid, out)
    return out


def file_text(world, path):
    """Bytes of the file. Per-file options: eol = "crlf" (DOS line ends) | "nofinal" (no newline at end)."""
    lines = [t for _, t in render_file(world, path)]
    eol = world["files"][path].get("eol")
    if eol == "crlf":
        return "".join(t + "\r\n" for t in lines)
    if eol == "nofinal" and lines:
        return "\n".join(lines)
    return "".join(t + "\n" for t in lines)


TOPREL = "@TOPREL@"     # the scratch top as seen from the file system root (no leading slash)


def subst(s, top):
    return s.replace(TOP, top).replace(TOPREL, top.lstrip("/"))


def entry_argv(entry):
    if "arguments" in entry:
        return list(entry["arguments"])
    return shlex.split(entry["command"])


def concrete_entry(entry, top):
    e = {}
    for k, v in entry.items():
        if k.startswith("_"):
            continue
        if isinstance(v, str):
            e[k] = subst(v, top)
        elif isinstance(v, list):
            e[k] = [subst(x, top) for x in v]
        else:
            e[k] = v
    return e


def order_by(keys, perm):
    """Apply a recorded permutation (list of indices, or None = identity) to a list."""
    keys = list(keys)
    if not perm:
        return keys
    if sorted(perm) != list(range(len(keys))):
        # A minimiser may have shrunk the list: fall back to identity on mismatch.
        return keys
    return [keys[i] for i in perm]


def materialise(world, top, schedule=None):
    """Create the world under `top` (must not exist or be empty). Deterministic given inputs."""
    schedule = schedule or {}
    os.makedirs(top, exist_ok=True)
    root = os.path.join(top, world["root"])
    os.makedirs(root, exist_ok=True)
    for d in world.get("dirs", []):
        os.makedirs(os.path.join(top, d), exist_ok=True)
    paths = order_by(sorted(world["files"]), schedule.get("creation_order"))
    first_name = {}     # hard-link groups: original path -> the name of the group created first
    for p in paths:
        full = os.path.join(top, p)
        os.makedirs(os.path.dirname(full), exist_ok=True)
        text = file_text(world, p)
        if world.get("hardlink_copies"):
            # byte-identical copies are further NAMES of one inode (a copy and a hard link are the same thing to
            # anything that reads files; only st_nlink/st_ino tell them apart)
            grp = world["files"][p].get("copy_of", p)
            if grp in first_name and file_text(world, first_name[grp]) == text:
                os.link(os.path.join(top, first_name[grp]), full)
                continue
            first_name.setdefault(grp, p)
        # (per-file option "encoding": a legacy file that is not valid UTF-8)
        with open(full, "w", newline="", encoding=world["files"][p].get("encoding", "utf-8")) as f:
            f.write(subst(text, top))      # (an include directive may spell an absolute path)
    for l in world.get("links", []):
        full = os.path.join(top, l["path"])
        os.makedirs(os.path.dirname(full), exist_ok=True)
        os.symlink(subst(l["target"], top), full)
    plats = order_by(world["platforms"], schedule.get("platform_order"))
    for pi, p in enumerate(world["platforms"]):
        full = os.path.join(top, p["db"])
        os.makedirs(os.path.dirname(full), exist_ok=True)
        ents = order_by(p["entries"], (schedule.get("command_order") or {}).get(p["name"]))
        with open(full, "w") as f:
            json.dump([concrete_entry(e, top) for e in ents], f, indent=1)
    if world.get("cbi_config") is not None:
        os.makedirs(os.path.join(root, ".cbi"), exist_ok=True)
        with open(os.path.join(root, ".cbi", "config"), "w") as f:
            f.write(subst(world["cbi_config"], top))
    # analysis file (platform tables in scheduled order)
    adir = os.path.join(top, os.path.dirname(analysis_path(world)))
    os.makedirs(adir, exist_ok=True)
    with open(os.path.join(top, analysis_path(world)), "w") as f:
        f.write("[codebase]\n")
        f.write("exclude = [" + ", ".join(json.dumps(x) for x in world.get("excludes", [])) + "]\n")
        for p in plats:
            key = p["name"] if all(ch.isalnum() or ch in "_-" for ch in p["name"]) else json.dumps(p["name"])
            f.write(f"\n[platform.{key}]\n")
            dbp = os.path.join(top, p["db"])
            if schedule.get("db_rel"):
                # relative to the directory the front ends are started in (the root)
                dbp = os.path.relpath(dbp, root)
            f.write("commands = " + json.dumps(dbp) + "\n")
    return root


def normalise_shared_dbs(world):
    """Platforms that name one database file see the same commands: the file's contents are those of the
    last platform written. Make the data say so (a minimiser may have edited one of them)."""
    last = {}
    for p in world["platforms"]:
        last[p["db"]] = p["entries"]
    for p in world["platforms"]:
        if p["entries"] is not last[p["db"]]:
            p["entries"] = [dict(e) for e in last[p["db"]]]
    return world


def analysis_path(world):
    return world.get("analysis", "proj/db/analysis.toml")


def cleanup(top):
    shutil.rmtree(top, ignore_errors=True)


def world_size(world):
    n = 0

    def cnt(items):
        c = 0
        for it in items:
            c += 1
            if it[0] == "cond":
                for _, _, b in it[1]:
                    c += 1 + cnt(b)
        return c

    for f in world["files"].values():
        n += cnt(f["items"]) if "items" in f else 1 + f["text"].count("\n")
    n += len(world.get("links", []))
    for p in world["platforms"]:
        n += 1 + len(p["entries"])
    return n
