"""Reference model: a small, stateless preprocessor + path model evaluated on world item trees.

It knows nothing about C arithmetic, function-like macros or comments: the generator only emits the
grammar described in world.py. File-system questions (does this candidate exist, what is the
physical identity of this name) are answered by the real kernel on the materialised world, which is
also what a compiler would ask.
"""
import os
import re

from . import world as W

SRC_EXT = {
    ".f90", ".F90", ".f", ".ftn", ".fpp", ".F", ".FOR", ".FTN", ".FPP", ".c", ".h", ".c++", ".cxx",
    ".cpp", ".cc", ".hpp", ".hxx", ".h++", ".hh", ".inc", ".inl", ".tcc", ".icc", ".ipp", ".cu",
    ".cuh", ".cl", ".s", ".S", ".asm",
}
KNOWN_DIRECTIVES = {"define", "undef", "include", "if", "ifdef", "ifndef", "elif", "else", "endif",
                    "pragma"}
EXEMPT_DIRECTIVES = {"line", "warning", "error"}
BUILTIN_COMPILERS = {"gcc", "g++", "clang", "clang++", "icx", "icpx", "nvcc"}


def compiler_passes(compiler, other):
    """Built-in multi-pass behaviour (documented under 'Emulating compiler behavior') for plain
    command lines: -> list of per-pass extra -D lists, default pass first."""
    omp = ["_OPENMP"] if "-fopenmp" in other else []
    if compiler in ("icx", "icpx"):
        sycl = ["SYCL_LANGUAGE_VERSION"] if "-fsycl" in other else []
        return [omp + sycl, ["__SYCL_DEVICE_ONLY__", "__SPIR__", "__SPIRV__", "SYCL_LANGUAGE_VERSION"]]
    if compiler == "nvcc":
        base = ["__NVCC__", "__CUDACC__"]
        return [base + omp, base + ["__CUDA_ARCH__=700"]]
    if compiler in ("gcc", "g++", "clang", "clang++"):
        return [omp]
    return [[]]


class InvalidWorld(Exception):
    """The world violates a precondition of the properties (e.g. macro redefinition)."""


# ---------------------------------------------------------------------------------- path model
def parse_argv(argv):
    """Independent reading of the options the properties name. -> dict"""
    out = {"compiler": os.path.basename(argv[0]) if argv else None, "defines": [], "I": [],
           "isystem": [], "include": [], "other": [], "files": []}
    i = 1
    n = len(argv)

    def take(flag, key):
        nonlocal i
        a = argv[i]
        if a == flag:
            if i + 1 < n:
                out[key].append(argv[i + 1])
                i += 2
            else:
                i += 1
            return True
        if a.startswith(flag) and (flag in ("-D", "-I")):
            out[key].append(a[len(flag):])
            i += 1
            return True
        return False

    while i < n:
        a = argv[i]
        if take("-D", "defines") or take("-isystem", "isystem") or take("-include", "include") \
                or take("-I", "I"):
            continue
        if a == "-o" and i + 1 < n:
            i += 2
            continue
        if a in ("-c", "-g") or a.startswith("-O") or a.startswith("-o"):
            i += 1
            continue
        if a.startswith("-"):
            out["other"].append(a)
        else:
            out["files"].append(a)
        i += 1
    return out


def entry_paths(entry, root):
    """The compilation-database path model. entry: concrete (absolute paths substituted).
    -> (directory, file) absolute, lexically normalised."""
    d = entry.get("directory")
    if d is None:
        d = root
    elif not os.path.isabs(d):
        d = os.path.join(root, d)
    d = os.path.normpath(d)
    f = entry["file"]
    if not os.path.isabs(f):
        f = os.path.join(d, f)
    return d, os.path.normpath(f)


def entry_fault(entry, root):
    """-> None | 'empty_command' | 'non_source' | 'missing_file'"""
    argv = W.entry_argv(entry)
    if len(argv) == 0:
        return "empty_command"
    if os.path.splitext(entry["file"])[1] not in SRC_EXT:
        return "non_source"
    _, f = entry_paths(entry, root)
    if not os.path.exists(f):
        return "missing_file"
    return None


def entry_config(entry, root):
    """-> dict(file, directory, defines, search (ordered dirs), forced, compiler, other)"""
    d, f = entry_paths(entry, root)
    a = parse_argv(W.entry_argv(entry))

    def ab(p):
        return os.path.normpath(p if os.path.isabs(p) else os.path.join(d, p))

    return {"file": f, "directory": d, "defines": a["defines"],
            "search": [ab(p) for p in a["I"]] + [ab(p) for p in a["isystem"]],
            "I": [ab(p) for p in a["I"]], "isystem": [ab(p) for p in a["isystem"]],
            "forced": a["include"], "compiler": a["compiler"], "other": a["other"]}


# ---------------------------------------------------------------------------------- evaluator
def _num(macros, name, seen=()):
    """Value of an identifier in #if arithmetic: undefined -> 0; a macro that (directly or through a
    chain) expands to a name already being expanded is left alone ("painted blue") and that identifier
    then counts as 0."""
    if name not in macros or name in seen:
        return 0
    v = macros[name]
    if v is None or v == "":
        raise InvalidWorld(f"empty macro {name} in arithmetic")
    mnum = re.fullmatch(r"(0[xX][0-9a-fA-F]+|0[0-7]*|[1-9]\d*)([uUlL]*)", v)
    if mnum:
        body = mnum.group(1)
        if body.lower().startswith("0x"):
            return int(body, 16)
        return int(body, 8) if body.startswith("0") and len(body) > 1 else int(body)
    if re.fullmatch(r"-?\d+", v):
        return int(v)
    if re.fullmatch(r"[A-Za-z_]\w*", v):
        return _num(macros, v, seen + (name,))
    raise InvalidWorld(f"non-numeric macro {name}={v!r} in arithmetic")


def eval_expr(e, macros):
    k = e[0]
    if k in ("def", "defsp"):
        return e[1] in macros
    if k == "ndef":
        return e[1] not in macros
    if k == "val":
        return _num(macros, e[1]) != 0
    if k == "eq":
        return _num(macros, e[1]) == e[2]
    if k == "gt":
        return _num(macros, e[1]) > e[2]
    if k == "and":
        # C evaluates the right operand for syntax only; both sides are always well-formed here,
        # but arithmetic on an empty macro is an error wherever it stands, so look at both.
        a = eval_expr(e[1], macros)
        b = eval_expr(e[2], macros)
        return a and b
    if k == "or":
        a = eval_expr(e[1], macros)
        b = eval_expr(e[2], macros)
        return a or b
    if k == "not":
        return not eval_expr(e[1], macros)
    raise ValueError(e)


class TU:
    """One translation unit evaluated from a fresh state."""

    MAX_DEPTH = 40

    def __init__(self, model, cfg, tag):
        self.m = model
        self.cfg = cfg
        self.tag = tag
        self.macros = {}
        self.once = set()
        self.used = {}       # canonical relpath -> set(lines)
        self.events = []     # missing includes: (file rel, line, spelling, form)
        self.reached = set()  # canonical relpaths of every file processed
        self.lookups = 0
        self.lookup_log = []  # (spelling, form, curdir, result path or None, n_candidates)
        for d in cfg["defines"]:
            if "=" in d:
                k, v = d.split("=", 1)
                self.macros[k] = v
            else:
                self.macros[d] = "1"

    def resolve(self, spelling, form, curdir):
        self.lookups += 1
        dirs = ([curdir] if form == "q" else []) + self.cfg["search"]
        found = None
        ncand = 0
        for d in dirs:
            p = os.path.join(d, spelling)
            if os.path.isfile(p):
                ncand += 1
                if found is None:
                    found = p
        self.lookup_log.append((spelling, form, curdir, found, ncand))
        return found

    def run(self):
        main = self.cfg["file"]
        for inc in self.cfg["forced"]:
            # Forced includes are searched like a quote include from the directory of the main file
            # (the generator never relies on the compiler's cwd-first rule).
            p = self.resolve(inc, "q", os.path.dirname(os.path.realpath(main)))
            # a forced include is an include like any other: #pragma once applies (checked against gcc)
            if p is not None and self.m.rel(os.path.realpath(p)) not in self.once:
                self.process(p, 0)
        self.process(main, 0)
        return self

    def process(self, path_as_found, depth):
        if depth > self.MAX_DEPTH:
            raise InvalidWorld("include depth")
        real = os.path.realpath(path_as_found)
        rel = self.m.rel(real)
        if rel not in self.m.world["files"]:
            raise InvalidWorld(f"file {rel} not in world")
        f = self.m.world["files"][rel]
        if "items" not in f:
            raise InvalidWorld(f"raw file {rel} cannot be modelled")
        self.reached.add(rel)
        # CBI (and this model) take "directory of the current file" from the physical file; the
        # generator only creates file links beside their targets so that a compiler agrees.
        self._walk(f["items"], rel, os.path.dirname(real), [1], True, depth)

    def _use(self, rel, line):
        self.used.setdefault(rel, set()).add(line)

    def _walk(self, items, rel, curdir, ln, active, depth):
        for it in items:
            t = it[0]
            if t == "code":
                for _ in range(it[1]):
                    if active:
                        self._use(rel, ln[0])
                    ln[0] += 1
            elif t in ("blank", "comment"):
                ln[0] += 1
            elif t == "bcomment":
                ln[0] += it[1] + 2
            elif t == "raw":
                raise InvalidWorld("raw item cannot be modelled")
            elif t == "cond":
                taken = False
                for kind, e, body in it[1]:
                    if active:
                        self._use(rel, ln[0])
                    ln[0] += 1
                    c = False
                    if active and not taken:
                        if kind == "else":
                            c = True
                        elif kind == "ifdef":
                            c = e in self.macros
                        elif kind == "ifndef":
                            c = e not in self.macros
                        else:
                            c = eval_expr(e, self.macros)
                    elif active and kind == "elif":
                        # not evaluated by C, but must still be well-formed for the SUT's sake
                        eval_expr(e, self.macros)
                    self._walk(body, rel, curdir, ln, active and c, depth)
                    taken = taken or c
                if active:
                    self._use(rel, ln[0])
                ln[0] += 1
            else:
                here = ln[0]
                ln[0] += 1
                two = t == "define" and len(it) > 3 and it[3] == "ml" and it[2] is not None
                if two:
                    ln[0] += 1
                if not active:
                    continue
                self._use(rel, here)
                if two:
                    self._use(rel, here + 1)
                if t == "define":
                    v = it[2]
                    if it[1] in self.macros and (self.macros[it[1]] or "") != (v or ""):
                        raise InvalidWorld(f"redefinition of {it[1]}")
                    self.macros[it[1]] = v
                elif t == "undef":
                    self.macros.pop(it[1], None)
                elif t == "once":
                    self.once.add(self.m.rel(os.path.realpath(os.path.join(self.m.top, rel))))
                elif t == "include":
                    form, sp = it[1], it[2].replace("@TOP@", self.m.top)
                    if form == "m":
                        v = self.macros.get(sp)
                        if v is None:
                            raise InvalidWorld(f"computed include through undefined {sp}")
                        v = v.strip()
                        if v.startswith('"') and v.endswith('"'):
                            form, sp = "q", v[1:-1]
                        elif v.startswith("<") and v.endswith(">"):
                            # the tokens between < and > are macro-expanded before the name is formed
                            # (replacements are rescanned in turn; a macro is not replaced inside its own expansion)
                            def _expand(text, hidden):
                                def _one(mo):
                                    nm = mo.group(0)
                                    if not (nm[0].isalpha() or nm[0] == "_"):
                                        return nm       # a pp-number swallows letters and dots: "2.h" is one token
                                    val = self.macros.get(nm)
                                    if val is None or nm in hidden or not re.fullmatch(r"[\w./+-]*", val):
                                        return nm
                                    return _expand(val, hidden | {nm})
                                return re.sub(r"\.?\d(?:[eEpP][+-]|[\w.])*|[A-Za-z_]\w*", _one, text)
                            form, sp = "a", _expand(v[1:-1], frozenset())
                        else:
                            raise InvalidWorld(f"computed include value {v!r}")
                    p = self.resolve(sp, form, curdir)
                    if p is None:
                        if self.m.world["files"][rel].get("encoding", "utf-8") != "utf-8":
                            # bytes that are no UTF-8 reach the SUT as U+FFFD (it reads with errors="replace")
                            sp = "".join(ch if ord(ch) < 128 else "\ufffd" for ch in sp)
                        self.events.append((rel, here, sp, form))
                    else:
                        tr = self.m.rel(os.path.realpath(p))
                        if tr not in self.once:
                            self.process(p, depth + 1)
                elif t == "directive":
                    pass


class Model:
    def __init__(self, world, top):
        self.world = world
        self.top = os.path.realpath(top)
        self.root = os.path.join(self.top, world["root"])

    def rel(self, real):
        return os.path.relpath(real, self.top)

    def members(self):
        """Canonical relpaths of regular world files that belong to the code base (links excluded)."""
        out = []
        rootrel = self.world["root"]
        for p in sorted(self.world["files"]):
            if not (p == rootrel or p.startswith(rootrel + "/")):
                continue
            if os.path.splitext(p)[1] not in SRC_EXT:
                continue
            if self._excluded(os.path.relpath(p, rootrel)):
                continue
            out.append(p)
        return out

    def _excluded(self, relroot):
        # Only the two pattern shapes the generator emits: "name/" (directory) and "*.ext".
        for pat in self.world.get("excludes", []):
            if pat.endswith("/"):
                if (relroot + "/").startswith(pat) or ("/" + pat) in ("/" + relroot + "/"):
                    return True
            elif pat.startswith("*."):
                if relroot.endswith(pat[1:]):
                    return True
            elif relroot == pat or relroot.endswith("/" + pat):
                return True
        return False

    def counted_lines(self, rel):
        kinds = W.render_file(self.world, rel)
        return {i + 1 for i, (k, _) in enumerate(kinds) if k in ("code", "dir")}

    def evaluate(self, platforms=None, entry_filter=None):
        """-> dict(used, events, db_events, parsed, tus)
        used: {rel: {line: set(platform)}}; events: list of (platform, entry#, rel, line, sp, form)
        """
        used = {}
        events = []
        db_events = []
        reached = set()
        tus = 0
        lookups = 0
        probes = {"ambiguous_lookup": 0, "same_spelling_other_ctx": 0,
                  "same_spelling_other_result": 0, "once_headers": 0}
        for p in self.world["platforms"]:
            if platforms is not None and p["name"] not in platforms:
                continue
            for ei, e0 in enumerate(p["entries"]):
                if entry_filter is not None and not entry_filter(p["name"], ei):
                    continue
                e = W.concrete_entry(e0, self.top)
                fault = entry_fault(e, self.root)
                if fault:
                    db_events.append((p["name"], ei, fault, entry_paths(e, self.root)[1]))
                    continue
                cfg0 = entry_config(e, self.root)
                for extra in compiler_passes(cfg0["compiler"], cfg0["other"]):
                    cfg = dict(cfg0)
                    cfg["defines"] = list(cfg0["defines"]) + extra
                    tu = TU(self, cfg, (p["name"], ei)).run()
                    tus += 1
                    lookups += tu.lookups
                    reached |= tu.reached
                    for rel, ls in tu.used.items():
                        d = used.setdefault(rel, {})
                        for l in ls:
                            d.setdefault(l, set()).add(p["name"])
                    events += [(p["name"], ei) + ev for ev in tu.events]
                    self._probe(tu, probes)
        return {"used": used, "events": events, "db_events": db_events, "reached": reached,
                "tus": tus, "lookups": lookups, "probes": probes}

    @staticmethod
    def _probe(tu, probes):
        seen = {}
        for sp, form, cd, res, nc in tu.lookup_log:
            if nc > 1:
                probes["ambiguous_lookup"] += 1
            for (f2, cd2), r2 in seen.get(sp, {}).items():
                if (f2, cd2) != (form, cd):
                    probes["same_spelling_other_ctx"] += 1
                    if r2 != res:
                        probes["same_spelling_other_result"] += 1
                    break
            seen.setdefault(sp, {})[(form, cd)] = res
        if tu.once:
            probes["once_headers"] += len(tu.once)

    def unknown_directives(self, parsed):
        """Static unknown-directive occurrences in the given parsed files -> [(rel, line, name)]"""
        out = []
        for rel in sorted(parsed):
            f = self.world["files"].get(rel)
            if not f or "items" not in f:
                continue
            for i, (k, text) in enumerate(W.render_file(self.world, rel)):
                if k != "dir":
                    continue
                m = re.match(r"\s*#\s*([A-Za-z_]\w*)?", text)
                name = m.group(1) if m else None
                if name is None:
                    rest = text.strip()[1:].split() if text.lstrip().startswith("#") else []
                    if not rest:
                        continue  # null directive
                    # '#' followed by something that is no identifier ("#!generated", "#@x", a line marker
                    # '# 33 "f.c"'): no directive the SUT honours
                    name = text.strip()
                if name in KNOWN_DIRECTIVES or name in EXEMPT_DIRECTIVES:
                    continue
                out.append((rel, i + 1, name))
        return out
