"""./check entry point.

  check --setup
  check <ID> quick|thorough
  check <ID> --replay <file>
  check selftest [determinism|all]
Exit: 0 property held on everything explored; 1 + "VIOLATION property=<id> replay=<path>";
      2 + "HARNESS-ERROR ..." (never a verdict about the repository).
"""
import json
import os
import sys
import time

VERIF = os.path.dirname(os.path.dirname(os.path.abspath(__file__)))


def _reexec():
    """The harness itself runs under a fixed hash seed and imports codebasin from /repo."""
    want = {"PYTHONHASHSEED": os.environ.get("CBISIM_HARNESS_HASHSEED", "0"),
            "PYTHONDONTWRITEBYTECODE": "1", "CBISIM": "1"}
    repo = os.environ.get("CBISIM_REPO", "/repo")
    pp = os.environ.get("PYTHONPATH", "").split(os.pathsep)
    need = any(os.environ.get(k) != v for k, v in want.items()) or pp[:2] != [repo, VERIF]
    if need and os.environ.get("CBISIM_REEXEC") != "1":
        env = dict(os.environ)
        env.update(want)
        env["PYTHONPATH"] = os.pathsep.join([repo, VERIF])
        env["CBISIM_REEXEC"] = "1"
        env["PYTHONWARNINGS"] = "ignore"
        os.execve(sys.executable, [sys.executable, "-m", "cbisim.cli"] + sys.argv[1:], env)


def out(*a):
    print(*a, flush=True)


def write_evidence(pid, tier, verif_seed, camp, eng, extra, violations, wall):
    res = camp["results"]
    done = [r for r in res if r["verdict"] in ("ok", "violation")]
    fps = set()
    for r in done:
        if r.get("nontrivial") or r["verdict"] == "violation":
            fps.add(r["fingerprint"])
    faults = {}
    probes = {}
    ops = {"tus": 0, "lookups": 0, "ops": 0, "cli_runs": 0, "variants": 0, "subprocess_runs": 0}
    for r in res:
        st = r.get("stats") or {}
        for k, v in (st.get("faults") or {}).items():
            faults[k] = faults.get(k, 0) + int(v)
        for k, v in (st.get("probes") or {}).items():
            probes[k] = probes.get(k, 0) + int(v)
        for k in ops:
            ops[k] += int(st.get(k, 0))
    samples = []
    for r in res:
        if "case" in r and r["verdict"] != "violation" and len(samples) < 3:
            samples.append({"seed": r["seed"], "verdict": r["verdict"], "schedule": r["case"]["schedule"],
                            "world": _abbrev_world(r["case"]["world"]), "stats": r.get("stats")})
    if not samples:
        samples.append({"note": "no completed run to sample"})
    counts = {}
    for r in res:
        counts[r["verdict"]] = counts.get(r["verdict"], 0) + 1
    ev = {
        "property_id": pid, "tier": tier, "seed": int(verif_seed), "level": "exploration",
        "coverage": {
            "evaluations": len(done),
            "distinct_nontrivial": len(fps),
            "rule": eng.RULE,
            "samples": samples,
            "runs_requested": camp["n_requested"],
            "truncated": camp["truncated"],
            "verdicts": counts,
            "runs_per_hour": int(len(done) / max(wall, 1e-6) * 3600),
            "seeds": {"first": res[0]["seed"] if res else None, "last": res[-1]["seed"] if res else None,
                      "derivation": "sha256(property:VERIF_SEED:index)[:12]"},
            "ops": ops,
            "simulated_time": "n/a (the SUT has no timers, deadlines or retries; progress is counted in operations)",
            "faults_fired": faults,
            "probes": probes,
            "invalid_world": counts.get("invalid", 0),
            "distinct_observations": len({r.get("obs_digest") for r in done if r.get("obs_digest")}),
            "distinct_observations_measure": "number of distinct sha256 digests of the canonical observation of the "
                                             "baseline execution (per-line attribution, set map, sorted log records, ...)",
            "components": {
                "real": ["codebasin (all modules, from /repo working tree)", "pathspec", "jsonschema",
                         "tabulate", "numpy", "argparse", "logging", "real file system (private scratch tree)",
                         "os.path/pathlib", "hashlib/filecmp"],
                "interposed": ["os.scandir/os.listdir (order only)", "Platform.find_include_file wrapper (memo eviction only)",
                               "ParserState._get_realpath wrapper (cache eviction only)", "process boundary (fork-fresh children, hash-seeded zygotes)",
                               "jsonschema.validate: schema-vs-metaschema check memoised by schema content (instance validation untouched)",
                               "concurrent.futures executors, as_completed, wait: simulated in-thread pool whose completion order "
                               "comes from the schedule (inert on a tree that uses no pool: see probe worker_pool_tasks in C14)"],
            },
        },
        "assumptions": eng.ASSUMPTIONS,
        "wall_s": round(wall, 2),
        "violations": violations,
    }
    ev["coverage"].update(extra or {})
    from . import runners

    # evidence describes /repo itself; a run against another tree (mutant, scratch worktree) must not
    # overwrite it
    edir = os.path.join(VERIF, "evidence") if os.path.realpath(runners.REPO) == "/repo" else \
        os.path.join(os.environ.get("CBISIM_SCRATCH") or "/dev/shm", "cbisim-evidence-other-tree")
    os.makedirs(edir, exist_ok=True)
    with open(os.path.join(edir, f"{pid}.json"), "w") as f:
        json.dump(ev, f, indent=1, sort_keys=True)
    return ev


def _abbrev_world(w):
    from . import world as W

    files = {}
    for p in sorted(w["files"])[:12]:
        files[p] = W.file_text(w, p).split("\n")[:40]
    return {"root": w["root"], "files": files, "links": w.get("links", []),
            "platforms": [{"name": p["name"], "entries": p["entries"][:6]} for p in w["platforms"]],
            "excludes": w.get("excludes", []), "cbi_config": w.get("cbi_config")}


def cmd_check(pid, tier):
    from . import campaign, runners

    verif_seed = int(os.environ.get("VERIF_SEED", "0"))
    eng = campaign.engine_for(pid)
    t0 = time.monotonic()
    runners.preload()
    n = int(os.environ.get("CBISIM_RUNS", eng.TIERS[tier]["runs"]))
    workers = int(os.environ.get("CBISIM_WORKERS", "16"))
    out(f"[{pid}] tier={tier} VERIF_SEED={verif_seed} runs={n} workers={workers} repo={campaign.repo_head()[:10]}")
    harness_errors = []
    known_hit = campaign.check_known(pid, out)
    for k in known_hit:
        if k.startswith("REGRESSION:"):
            _, kid, rp = k.split(":", 2)
            out(f"VIOLATION property={pid} replay={rp}")
            out(f"  a finding recorded as fixed reproduces again: {kid}")
    regress = [k for k in known_hit if k.startswith("REGRESSION:")]
    camp = campaign.run_campaign(pid, tier, verif_seed, n, workers=workers,
                                 wall_cap=eng.TIERS[tier].get("wall_cap"), opts=eng.TIERS[tier].get("opts"))
    res = camp["results"]
    for r in res:
        if r["verdict"] == "harness_error":
            harness_errors.append(f"run {r['i']} seed {r['seed']}: {r['detail'][:500]}")
    extra = {}
    if hasattr(eng, "extra_checks"):
        try:
            extra, more_viol = eng.extra_checks(tier, verif_seed, out)
        except runners.HarnessError as e:
            harness_errors.append("extra_checks: " + str(e)[:500])
            more_viol = []
    else:
        more_viol = []
    new, known, herr = campaign.handle_violations(pid, res + more_viol, out)
    harness_errors += herr
    wall = time.monotonic() - t0
    extra["known_findings_reproduced"] = [k for k in known_hit if not k.startswith("REGRESSION:")]
    ev = write_evidence(pid, tier, verif_seed, camp, eng, extra, new + len(regress), wall)
    cov = ev["coverage"]
    out(f"[{pid}] runs={cov['evaluations']} distinct_nontrivial={cov['distinct_nontrivial']} "
        f"verdicts={cov['verdicts']} faults={cov['faults_fired']} wall={wall:.1f}s")
    n_done = cov["evaluations"]
    inv = cov["invalid_world"]
    if inv > 0.01 * max(1, len(res)) and inv > 2:
        harness_errors.append(f"invalid_world rate too high: {inv}/{len(res)}")
    if hasattr(eng, "dead_probes"):
        dead = eng.dead_probes(tier, cov)
        if dead:
            harness_errors.append(f"probes never hit: {dead}")
    if new or regress:
        return 1
    if harness_errors or n_done == 0:
        for h in harness_errors[:5]:
            out("HARNESS-ERROR " + h.replace("\n", " | ")[:800])
        if n_done == 0:
            out("HARNESS-ERROR no run completed")
        return 2
    return 0


def cmd_replay(pid, path):
    from . import campaign, runners

    runners.preload()
    with open(path) as f:
        rec = json.load(f)
    res = campaign.replay_case(rec.get("property", pid), rec["case"], slot=rec.get("slot", 999002), ns=rec.get("ns"))
    if res["verdict"] == "violation":
        out(f"VIOLATION property={pid} replay={path}")
        out(f"  class={res['violation']['class']} detail={json.dumps(res['violation']['detail'])[:1500]}")
        return 1
    out(f"[{pid}] replay {path}: verdict={res['verdict']} (no violation)")
    return 0


def cmd_setup():
    from . import campaign, runners

    runners.preload()
    import jsonschema

    with open(os.path.join(VERIF, "MANIFEST.json")) as f:
        man = json.load(f)
    sch = "/root/.vp/MANIFEST.schema.json"
    if os.path.exists(sch):
        with open(sch) as f:
            jsonschema.validate(man, json.load(f))
    z = runners.zygote(7)
    r = z.call("probe_hash_order", {"names": ["a", "b", "c", "d"]})
    runners.close_zygotes()
    for pid in campaign.ENGINES:
        try:
            campaign.engine_for(pid)
        except ModuleNotFoundError:
            pass
    out(f"setup ok: codebasin from {sys.modules['codebasin'].__file__}; zygote hashseed={r['hashseed']}")
    return 0


def main():
    _reexec()
    a = sys.argv[1:]
    if not a:
        out(__doc__)
        return 2
    try:
        if a[0] == "--setup":
            return cmd_setup()
        if a[0] == "selftest":
            from . import selftest

            return selftest.main(a[1:], out)
        pid = a[0]
        if len(a) >= 3 and a[1] == "--replay":
            return cmd_replay(pid, a[2])
        tier = a[1] if len(a) > 1 else os.environ.get("VERIF_TIER", "quick")
        return cmd_check(pid, tier)
    except KeyboardInterrupt:
        raise
    except Exception as e:  # noqa
        import traceback

        out("HARNESS-ERROR " + f"{type(e).__name__}: {e}".replace("\n", " | "))
        traceback.print_exc()
        return 2


if __name__ == "__main__":
    sys.exit(main())
