"""C15 - each physical file is parsed and counted once, however it is reached.

The environment presents one inode under many names; which name each reference uses (database file,
directory, -I, -include, include directives) is a free choice the scheduler makes per reference.
Oracle: the aliased world projected onto physical files == the same world with every alias replaced by
the canonical path and all links removed; a link to a member adds nothing; dangling links and links to
targets outside the code base are not members; membership is the same for every alias of a file;
evicting the canonicalisation cache (buggify) changes nothing.
"""
import copy
import os

from .. import core, gen, refmodel, runners
from .. import world as W
from . import c14

PID = "C15"


def _dot_includes(items, r, p):
    for it in items:
        if it[0] == "include" and it[1] in ("q", "a") and not it[2].startswith("@") and r.random() < p:
            it[2] = "./" + it[2]
        elif it[0] == "cond":
            for br in it[1]:
                _dot_includes(br[2], r, p)


def generate(seed, scratch):
    r = core.rng_for(seed, "gen")
    world, cfg = gen.gen_world(r, "c15")
    rs = core.rng_for(seed, "sched")
    if cfg.get("dot_includes"):
        for p in sorted(world["files"]):
            if "items" in world["files"][p]:
                _dot_includes(world["files"][p]["items"], rs, cfg["dot_includes"])
    return {"property": PID, "seed": seed, "world": world, "cfg": cfg,
            "schedule": {"root_alias": rs.random() < 0.3, "relink": rs.random() < 0.3,
                         # terminal verbosity / debug output of the front end must not change any result
                         "cli_flags": rs.choice([[], [], ["--debug"], ["-v"], ["-q"]]),
                         # the API allows a code base made of several listed directories
                         "multi_dir": rs.sample(["d1", "d2", "inc1", "inc2", "d1/inc"], rs.randint(2, 4)) if rs.random() < 0.2 else None,
                         "rp_evict": "all" if rs.random() < 0.3 else sorted(rs.sample(range(60), 4)),
                         "cli": rs.random() < 0.5}}


def _strip_dot(items):
    for it in items:
        if it[0] == "include" and it[1] in ("q", "a"):
            while it[2].startswith("./"):
                it[2] = it[2][2:]
        elif it[0] == "cond":
            for br in it[1]:
                _strip_dot(br[2])


def canonicalise(world, top):
    """The same world with every alias replaced by the canonical path (decided by the kernel on the
    materialised aliased world) and all links removed."""
    w = copy.deepcopy(world)
    w["links"] = []
    root = os.path.join(top, world["root"])
    for f in w["files"].values():
        if "items" in f:
            _strip_dot(f["items"])
    aliased_refs = 0

    def canon(p):
        nonlocal aliased_refs
        rp = os.path.realpath(p)
        if rp != os.path.normpath(p) or "/./" in p:
            aliased_refs += 1
        return rp.replace(top, W.TOP, 1) if rp.startswith(top) else rp

    for p in w["platforms"]:
        ents = []
        for e0 in p["entries"]:
            e = W.concrete_entry(e0, top)
            if refmodel.entry_fault(e, root):
                ents.append(e0)
                continue
            cfg = refmodel.entry_config(e, root)
            d = cfg["directory"]

            def cpath(p):
                return canon(p if os.path.isabs(p) else os.path.join(d, p))

            # token-wise: only path-valued arguments are rewritten, everything else is kept verbatim
            src = W.entry_argv(e)
            argv = [src[0]]
            k = 1
            while k < len(src):
                a = src[k]
                if a in ("-I", "-isystem") and k + 1 < len(src):
                    argv += [a, cpath(src[k + 1])]
                    k += 2
                elif a == "-include" and k + 1 < len(src):
                    argv += [a, canon(src[k + 1]) if os.path.isabs(src[k + 1]) else src[k + 1]]
                    k += 2
                elif a.startswith("-I") and len(a) > 2:
                    argv += ["-I", cpath(a[2:])]
                    k += 1
                elif a == e["file"]:
                    k += 1      # the file argument is re-added canonically below
                else:
                    argv.append(a)
                    k += 1
            cf = canon(cfg["file"])
            argv += ["-c", cf]
            ents.append({"file": cf, "arguments": argv})
        p["entries"] = ents
    return w, aliased_refs


def tree_root_line(out):
    for l in out.split("\n"):
        if l.startswith("[") and " o " in l and not l.startswith("[Platforms"):
            return l.split("]")[0]
    return None


def tree_file_rows(out):
    """(meta, name) of every regular-file row of a cbi-tree listing (directory and link rows dropped),
    as a sorted list."""
    import re

    rows = []
    for l in out.split("\n"):
        m = re.match(r"^(\[[^\]]*\])\s+[|\\ ]*[-o]*\s*(.*)$", l)
        if not m or l.startswith("[Platforms"):
            continue
        name = m.group(2).strip()
        if not name or name.endswith("/") or " -> " in name:
            continue
        rows.append([m.group(1), name])
    return sorted(rows)


def execute(case, scratch):
    world, sched = case["world"], case["schedule"]
    stats = {"faults": {}, "probes": {}, "cli_runs": 0, "variants": 0}
    top = scratch.fresh("t")
    topc = scratch.fresh("c")
    try:
        W.materialise(world, top)
        root = os.path.join(top, world["root"])
        # precondition of the metamorphic relation: every link is what the generator meant
        kinds = {}
        for l in world.get("links", []):
            full = os.path.join(top, l["path"])
            kinds[l.get("kind", "?")] = kinds.get(l.get("kind", "?"), 0) + 1
            if l.get("kind") in ("file", "dir", "xfile") and not os.path.exists(full):
                return {"verdict": "invalid", "detail": f"link {l['path']} does not resolve", "stats": stats}
        for k, v in kinds.items():
            stats["faults"][k + "_link"] = v
        cw, aliased = canonicalise(world, top)
        stats["probes"]["aliased_references"] = aliased
        W.materialise(cw, topc)

        def viol(cls, detail):
            return {"verdict": "violation", "stats": stats, "violation": {"class": cls, "detail": detail}}

        # the analysis root itself may be named through a directory link
        kw = {}
        if sched.get("root_alias"):
            la = os.path.join(top, os.path.dirname(world["root"]), "Lroot")
            if not os.path.lexists(la):
                os.symlink(os.path.basename(world["root"]), la)
            kw = {"root": la, "cwd": la}
            stats["faults"]["root_alias"] = 1
        spec = core.api_spec(world, top)
        spec.update(kw)
        specc = core.api_spec(cw, topc)
        if sched.get("multi_dir") and not kw:
            dirs = [d for d in sched["multi_dir"] if os.path.isdir(os.path.join(top, world["root"], d))
                    and os.path.isdir(os.path.join(topc, cw["root"], d))]
            if len(dirs) >= 2:
                spec["codebase_dirs"] = [os.path.join(top, world["root"], d) for d in dirs]
                specc["codebase_dirs"] = [os.path.join(topc, cw["root"], d) for d in dirs]
                stats["faults"]["multi_directory_codebase"] = 1
        od = runners.run_fresh("api_run", spec)["obs"][0]
        oc = runners.run_fresh("api_run", specc)["obs"][0]
        stats["variants"] += 2
        if oc["exc"]:
            return {"verdict": "discard", "detail": "canonical world raises", "stats": stats}
        if od["exc"]:
            return viol("aliased_world_fails", od["exc"])
        files = sorted(oc["attr"])
        d = core.diff_attr(oc["attr"], od["attr"], files=sorted(set(oc["attr"]) | set(od["attr"])))
        if d:
            return viol("aliased_attribution_differs_from_canonical", {"diffs": d, "left": "canonical", "right": "aliased"})
        if oc["setmap"] != od["setmap"]:
            return viol("aliased_setmap_differs_from_canonical", {"canonical": oc["setmap"], "aliased": od["setmap"]})
        # members: every member of the aliased world is (a link to) a member of the canonical world
        mc = set(oc["members"])
        md = {}
        for m in od["members"]:
            md.setdefault(os.path.relpath(os.path.realpath(os.path.join(top, m)), top), []).append(m)
        if set(md) != mc:
            return viol("membership_differs", {"only_canonical": sorted(mc - set(md)), "only_aliased": sorted(set(md) - mc)})
        stats["probes"]["member_reached_by_link"] = sum(1 for k, v in md.items() if len(v) > 1)
        # membership is alias independent; dangling / outside links are not members
        paths, want = [], []
        for m in sorted(mc)[:8]:
            paths += [os.path.join(top, m), os.path.relpath(os.path.join(top, m), root)]
            want += [True, True]
            parts = m.split("/")
            paths.append(os.path.join(top, "/".join(parts[:-1] + [".", parts[-1]])))
            want.append(True)
        for l in world.get("links", []):
            lp = os.path.join(top, l["path"])
            if l.get("kind") == "dir":
                tgt = os.path.relpath(os.path.realpath(lp), top)
                for m in sorted(mc):
                    if m.startswith(tgt + "/"):
                        paths.append(os.path.join(top, l["path"] + m[len(tgt):]))
                        want.append(True)
                        break
            elif l.get("kind") in ("file", "xfile"):
                tgt = os.path.relpath(os.path.realpath(lp), top)
                paths.append(lp)
                want.append(tgt in mc)
            elif l.get("kind") in ("dangling", "outside", "nonsrc_target"):
                paths.append(lp)
                want.append(False)
            elif l.get("kind") == "outside_dir":
                paths.append(os.path.join(lp, "outfile.c"))
                want.append(False)
        mem = runners.run_fresh("membership", {"top": top, "root": root, "cwd": root,
                                               "codebase_dirs": spec.get("codebase_dirs"),
                                               "excludes": world.get("excludes", []), "paths": paths})["in"]
        if mem != want:
            i = next(i for i, (a, b) in enumerate(zip(mem, want)) if a != b)
            return viol("membership_depends_on_alias", {"path": paths[i].replace(top, "@TOP@"), "got": mem[i], "expected": want[i]})
        # F7: evicting the canonicalisation cache is invisible
        espec = dict(spec)
        espec["rp_evict"] = sched.get("rp_evict")
        oe = runners.run_fresh("api_run", espec)
        stats["variants"] += 1
        stats["faults"]["realpath_cache_eviction"] = oe["seam_stats"]["realpath_evictions"]
        oe = oe["obs"][0]
        if oe["exc"] or core.diff_attr(od["attr"], oe["attr"]) or oe["setmap"] != od["setmap"]:
            return viol("cache_eviction_changes_result", {"exc": oe["exc"], "diffs": core.diff_attr(od["attr"], oe.get("attr") or {})})
        # history with an environment change: analyse, re-point a directory link, analyse again in the SAME
        # interpreter; the second analysis must equal a fresh interpreter's view of the changed tree
        dls = [l for l in world.get("links", []) if l.get("kind") == "dir" and "/" not in l["target"] and not l["target"].startswith("@")]
        if sched.get("relink") and dls and not kw and not spec.get("codebase_dirs"):
            l = dls[0]
            parent = os.path.dirname(os.path.join(top, l["path"]))
            others = sorted(d for d in os.listdir(parent) if os.path.isdir(os.path.join(parent, d))
                            and not os.path.islink(os.path.join(parent, d)) and d != l["target"] and d in ("d1", "d2", "inc1", "inc2"))
            if others:
                an = spec["analyses"][0]
                rspec = dict(spec)
                rspec["analyses"] = [an, an]
                rspec["relink_after"] = {"index": 0, "link": os.path.join(top, l["path"]), "target": others[0]}
                two = runners.run_fresh("api_run", rspec)["obs"]
                fresh = runners.run_fresh("api_run", spec)["obs"][0]      # the tree now has the link re-pointed
                # put the link back for the comparisons that follow
                os.unlink(os.path.join(top, l["path"]))
                os.symlink(l["target"], os.path.join(top, l["path"]))
                stats["variants"] += 2
                stats["faults"]["link_repointed_between_analyses"] = 1
                if bool(two[1]["exc"]) != bool(fresh["exc"]) or (not fresh["exc"] and (
                        core.diff_attr(fresh["attr"], two[1]["attr"]) or fresh["setmap"] != two[1]["setmap"])):
                    return viol("second_analysis_sees_stale_file_system",
                                {"link": l["path"], "now": others[0], "fresh_exc": fresh["exc"], "shared_exc": two[1]["exc"],
                                 "diffs": core.diff_attr(fresh.get("attr") or {}, two[1].get("attr") or {})})
        if sched.get("cli"):
            outs = []
            for w_, t_ in ((cw, topc), (world, top)):
                r_ = os.path.join(t_, w_["root"])
                af = os.path.join(t_, W.analysis_path(w_))
                cwd_, extra_, pwd_ = r_, [], False
                if w_ is world:
                    extra_ = list(sched.get("cli_flags") or [])
                    if sched.get("root_alias"):
                        # started like a shell would after `cd <link>`: the link to the root lives in ANOTHER
                        # directory than the root, and $PWD names the link
                        far = os.path.join(t_, "far_root")
                        if not os.path.lexists(far):
                            os.symlink(os.path.join(t_, w_["root"]), far)
                        cwd_, pwd_ = far, True
                        stats["faults"]["cwd_is_far_link"] = 1
                c = runners.run_fresh("cli_run", {"top": t_, "cwd": cwd_, "module": "codebasin", "set_pwd": pwd_,
                                                  "argv": extra_ + ["-R", "summary", "-R", "duplicates", af]})
                t = runners.run_fresh("cli_run", {"top": t_, "cwd": cwd_, "module": "codebasin.tree", "set_pwd": pwd_,
                                                  "argv": [af]})
                cov = None
                if w_["platforms"]:
                    cj = os.path.join(t_, "cov.json")
                    sdir = r_
                    if w_ is world and sched.get("root_alias"):
                        # the source directory itself named through a link
                        sdir = os.path.join(t_, os.path.dirname(w_["root"]), "Lroot")
                        if not os.path.lexists(sdir):
                            os.symlink(os.path.basename(w_["root"]), sdir)
                    cv = runners.run_fresh("cli_run", {"top": t_, "cwd": r_, "module": "codebasin.coverage",
                                                       "argv": ["compute", "-S", sdir, "-o", cj,
                                                                os.path.join(t_, w_["platforms"][0]["db"])], "keep": []})
                    if cv["rc"] == 0 and os.path.exists(cj):
                        import json as _json

                        with open(cj) as fh:
                            ents = _json.load(fh)
                        os.unlink(cj)
                        # entries of regular files only (a link to a member may be listed, it adds no file)
                        cov = sorted([e["file"], e["id"], sorted(e["used_lines"]), sorted(e["unused_lines"])]
                                     for e in ents if not os.path.islink(os.path.join(r_, e["file"])))
                    else:
                        cov = {"rc": cv["rc"]}
                stats["cli_runs"] += 3
                head, groups = c14.split_codebasin(c["out"])
                # the warnings part of the output names paths as spelled; compare from the summary on
                i = head.find("Summary")
                # duplicate groups are only comparable when decoration left every file's bytes alone
                # ("./" in an include directive changes the including file's content)
                same_bytes = all(W.file_text(world, p) == W.file_text(cw, p) for p in cw["files"])
                outs.append({"rc": c["rc"], "summary": head[i:] if i >= 0 else head,
                             "dups": sorted(sorted(g) for g in groups) if same_bytes else None, "tree_rc": t["rc"],
                             "tree_root": tree_root_line(t["out"]), "tree_files": tree_file_rows(t["out"]),
                             "coverage": cov if same_bytes else None})
            if outs[0] != outs[1]:
                k = next(k for k in outs[0] if outs[0][k] != outs[1][k])
                return viol("front_end_output_differs." + k, {"canonical": outs[0][k], "aliased": outs[1][k]})
        return {"verdict": "ok", "stats": stats, "nontrivial": bool(aliased or world.get("links")),
                "obs_digest": core.jdigest([od["attr"], od["setmap"], sorted(od["events"]), sorted(oc["events"])])}
    finally:
        W.cleanup(top)
        W.cleanup(topc)


def shrink_schedule(case):
    s = case["schedule"]
    if s.get("cli"):
        c = copy.deepcopy(case)
        c["schedule"]["cli"] = False
        yield c
    if s.get("rp_evict"):
        c = copy.deepcopy(case)
        c["schedule"]["rp_evict"] = []
        yield c


TIERS = {"quick": {"runs": 2000, "wall_cap": 480}, "thorough": {"runs": 60000, "wall_cap": 3300}}
RULE = ("one run = one generated world decorated with file links (beside their targets), directory links (siblings of their "
        "targets), dangling links and links to targets outside the code base, in which every reference (database file, "
        "directory, -I, -isystem, -include; ./ in include directives) uses a scheduler-chosen alias; compared with the same "
        "world spelled canonically without links (per-line attribution, set map, members, summary, duplicates, cbi-tree root), "
        "plus membership probes for every alias and a run with canonicalisation-cache eviction; non-trivial = at least one "
        "link or aliased reference; distinct = distinct sha256(world, schedule)")
ASSUMPTIONS = [
    "aliases are placed so that lexical and kernel resolution agree (file links beside targets, directory links siblings of targets); a '..' that follows a symlink into another parent (finding D9) is outside the generator's domain",
    "the canonical counterpart is derived from the aliased world by asking the kernel (realpath) on the materialised tree",
    "metamorphic: CBI is compared with CBI",
    "sampled, not exhaustive",
]


def dead_probes(tier, cov):
    # (realpath_cache_eviction depends on an internal attribute of the SUT and is optional)
    dead = [k for k in ("file_link", "xfile_link", "dir_link", "dangling_link", "outside_link")
            if cov["faults_fired"].get(k, 0) == 0]
    dead += [k for k in ("aliased_references", "member_reached_by_link") if cov["probes"].get(k, 0) == 0]
    return dead if cov["evaluations"] >= 100 else []
