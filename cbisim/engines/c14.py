"""C14 - results are deterministic and independent of enumeration order.

The schedule *is* the property's quantifier: string-hash seed (one interpreter per seed), the order in
which the OS enumerates directory entries (os.scandir interposer, or the native order after creating the
files in a permuted order), and the order of the [platform.*] tables.  Oracle: the canonical observation
of every schedule equals the baseline's - what the three front ends print and export, and the in-process
attribution, set map and metrics.
"""
import copy
import json
import os
import re

from .. import core, gen, runners
from .. import world as W

PID = "C14"
HASHSEEDS_QUICK = [1, 2, 3]
HASHSEEDS_THOROUGH = [1, 2, 3, 4, 5, 6, 7, 8]


def boundary_world(r, target=None):
    """A world whose exact code divergence or average coverage lies on a two-decimal rounding
    boundary (x.xx5): any change in floating-point summation order can flip the printed figure."""
    import itertools
    from fractions import Fraction

    # (average coverage goes through the builtin sum(), which is compensated and therefore
    # order-independent on Python >= 3.12; only the hand-written accumulation in divergence() can flip)
    target = target or "div"
    nplat = 4 if target == "avg" else r.choice([3, 3, 4])
    plats = [f"p{i}" if r.random() < 0.6 else f"plat{i}" for i in range(nplat)]
    macros = ["A", "B", "C", "V"][:nplat]
    subsets = [frozenset(c) for k in range(1, nplat + 1) for c in itertools.combinations(range(nplat), k)]
    perms = list(itertools.permutations(range(nplat)))
    for _ in range(40000 if target == "avg" else 8000):
        n = {s: r.choice([0, 0, 1, 2, 3, 4, 5, 6, 7, 9]) for s in subsets}
        blocks = [s for s in subsets if n[s]]
        if not blocks:
            continue
        sm = {s: n[s] for s in blocks}
        full = frozenset(range(nplat))
        sm[full] = sm.get(full, 0) + 2 * len(blocks)
        total = sum(sm.values())

        def dist(a, b):
            t = sum(c for s, c in sm.items() if a in s or b in s)
            return Fraction(sum(c for s, c in sm.items() if (a in s) ^ (b in s)), t)

        pairs = list(itertools.combinations(range(nplat), 2))
        div = sum(dist(a, b) for a, b in pairs) / len(pairs)
        avg = sum(Fraction(sum(c for s, c in sm.items() if p in s), total) for p in range(nplat)) / nplat * 100
        if not ((div * 1000) % 10 == 5 if target == "div" else (avg * 1000) % 10 == 5):
            continue
        # keep only worlds where the order of a floating-point sum really decides the printed figure
        # (the documented formulas, evaluated in every platform order)
        outs = {}
        for pm in perms:
            if target == "div":
                x = 0.0
                for a, b in itertools.combinations(pm, 2):
                    t = sum(c for s, c in sm.items() if a in s or b in s)
                    dd = 0.0
                    for s, c in sm.items():
                        if (a in s) ^ (b in s):
                            dd += c / float(t)
                    x += dd
                k = f"{x / float(len(pairs)):.2f}"
                outs[k] = outs.get(k, 0) + 1
            else:
                x = 0.0
                for p in pm:
                    x += (sum(c for s, c in sm.items() if p in s) / total) * 100.0
                k = f"{x / nplat:.2f}"
                outs[k] = outs.get(k, 0) + 1
        # ... and where a good share of the orders lands on each side
        if len(outs) > 1 and min(outs.values()) * 4 >= len(perms):
            break
    else:
        return None
    items = []
    for s in blocks:
        e = None
        for p in sorted(s):
            d = ["def", macros[p]]
            e = d if e is None else ["or", e, d]
        items.append(["cond", [["if", e, [["code", n[s]]]]]])
    r.shuffle(items)
    src = gen.ROOT + "/" + r.choice(["s0.c", "d1/s0.c"])
    world = {"root": gen.ROOT, "dirs": [gen.ROOT, "proj/db"], "links": [], "excludes": [], "cbi_config": None,
             "files": {src: {"lang": "c", "items": items}},
             "platforms": [{"name": plats[i], "db": f"proj/db/{plats[i]}.json",
                            "entries": [{"file": W.TOP + "/" + src,
                                         "arguments": ["gcc", "-D" + macros[i], "-c", W.TOP + "/" + src]}]}
                           for i in range(nplat)]}
    return world


def generate(seed, scratch, nvariants=3, hashseeds=None):
    hashseeds = hashseeds or HASHSEEDS_QUICK
    r = core.rng_for(seed, "gen")
    world, cfg = gen.gen_world(r, "c14")
    rs = core.rng_for(seed, "sched")
    if cfg.get("cbi_config"):
        gen.apply_user_compiler(world, core.rng_for(seed, "ucc"))
    if rs.random() < 0.2:
        bw = boundary_world(core.rng_for(seed, "boundary"))
        if bw is not None:
            world, cfg = bw, {"profile": "c14-boundary"}
    # engineered ties and duplicates: copies of files (byte-identical -> duplicate classes), unused files
    files = world["files"]
    srcs = sorted(files)
    ndup = rs.choice([0, 1, 2, 3])
    for k in range(ndup):
        src = rs.choice(srcs)
        for j in range(rs.randint(1, 3)):
            d = rs.choice(["", "d1", "d2", "inc1", "sub/deep"])
            ext = os.path.splitext(src)[1]
            if rs.random() < 0.2:
                ext = rs.choice([".F90", ".h", ".cpp"])     # the same bytes under a name that selects another front end
            name = f"copy{k}_{j}" + ext
            p = os.path.join(world["root"], d, name) if d else os.path.join(world["root"], name)
            files[p] = copy.deepcopy(files[src])
            files[p]["copy_of"] = src
    if ndup and rs.random() < 0.3:
        world["hardlink_copies"] = True      # the copies are hard links: several names of one inode
    for j in range(rs.randint(0, 3)):
        files[os.path.join(world["root"], rs.choice(["d1", "d2", "sub"]), f"u{j}.c")] = {
            "lang": "c", "items": [["code", rs.randint(1, 3)]]}
    if rs.random() < 0.08:
        # large generated tables vendored in two revisions (identical for the first 64 KiB and more), two copies each
        # (sometimes beyond 1 MiB, where tools start to treat files differently: chunked reads, worker threads)
        pad = "".join(f"// row {k:06d} 0123456789abcdef0123456789abcdef\n" for k in range(rs.choice([1700, 23000])))
        for rev in ("1", "2"):
            for where in ("d1", "d2/inc"):
                files[os.path.join(world["root"], where, f"table_r{rev}.h")] = {"lang": "c", "text": pad + f"int table_rev{rev};\n"}
    if rs.random() < 0.1 and len(world["platforms"]) <= 6:
        # two platforms that contribute no line at all (their only source is generated by a build that never ran)
        for nm in ("idle_a", "idle_b"):
            f = f"{W.TOP}/{world['root']}/{nm}_generated.c"
            world["platforms"].insert(rs.randint(0, len(world["platforms"])),
                                      {"name": nm, "db": f"proj/db/{nm}.json",
                                       "entries": [{"file": f, "arguments": ["gcc", "-c", f]}]})
    # the Python API also takes a code base made of several listed directories
    multi_dir = sorted(rs.sample(["d1", "d2", "inc1", "inc2", "sub"], rs.randint(2, 4))) if rs.random() < 0.15 else None
    nfiles = len(files)
    nplat = len(world["platforms"])
    variants = []
    for v in range(nvariants):
        pp = list(range(nplat))
        rs.shuffle(pp)
        mode = rs.choice(["key", "key", "native"])
        co = list(range(nfiles))
        rs.shuffle(co)
        variants.append({"hashseed": rs.choice(hashseeds),
                         "scandir_key": f"k{rs.randrange(1 << 30):x}" if mode == "key" else None,
                         "native_order": mode == "native",
                         "creation_order": co if mode == "native" else None,
                         "platform_order": pp})
    return {"property": PID, "seed": seed, "world": world, "cfg": cfg,
            "schedule": {"variants": variants, "clustering": rs.random() < 0.34, "multi_dir": multi_dir,
                         "real_subprocess": rs.random() < 0.04}}


DROP = (re.compile(r"^Log file created at "), re.compile(r"^Dendrogram written to "))


def split_codebasin(out):
    """-> (text before the duplicates section with run-specific lines dropped, duplicate groups in
    printed order as lists)"""
    lines = [l for l in out.split("\n") if not any(rx.match(l) for rx in DROP)]
    if "Duplicates" in lines:
        i = lines.index("Duplicates")
        head, tail = lines[:i], lines[i:]
    else:
        head, tail = lines, []
    groups = []
    for l in tail:
        if l.startswith("Match "):
            groups.append([])
        elif l.startswith("- ") and groups:
            groups[-1].append(l[2:])
    return "\n".join(head), groups


def render_copies(world):
    """Duplicate copies must be byte-identical: render a copy with the file id of its original."""
    return world


def observe(world, top, sched_v, clustering, multi_dir=None):
    """All observations of one schedule. The world is materialised under `top` by the caller."""
    hs = sched_v.get("hashseed")
    key = sched_v.get("scandir_key")
    if sched_v.get("native_order"):
        key = None
        native = True
    else:
        native = False
        if key is None:
            key = "name"
    # completion order of any worker pool the code may use: decided by the schedule as well
    pool_key = key if not native else "native-%s-%s" % (hs, sched_v.get("platform_order"))
    root = os.path.join(top, world["root"])
    excl = world.get("excludes", [])
    obs = {}
    porder = sched_v.get("platform_order")
    api = runners.run_fresh("api_run", core.api_spec(
        world, top, analyses=[{"platforms": core.plat_specs(world, top, order=porder), "excludes": excl,
                               "metrics": True}],
        scandir_key=None if native else key, pool_key=pool_key), hashseed=hs)
    o = api["obs"][0]
    if multi_dir:
        dirs = [os.path.join(root, d) for d in multi_dir if os.path.isdir(os.path.join(root, d))]
        if len(dirs) >= 2:
            # what the set map holds, in the order the code base is iterated (a result: the API documents iteration)
            sp = core.api_spec(world, top, analyses=[{"platforms": core.plat_specs(world, top, order=porder),
                                                      "excludes": excl}],
                               scandir_key=None if native else key, pool_key=pool_key, codebase_dirs=dirs)
            m = runners.run_fresh("api_run", sp, hashseed=hs)["obs"][0]
            obs["multi_dir"] = {"exc": bool(m["exc"]), "members": m.get("members"), "setmap": m.get("setmap"),
                                "setmap_order": m.get("setmap_order")}
    obs["api_exc"] = o["exc"]
    obs["attr"] = o.get("attr")
    obs["setmap"] = o.get("setmap")
    obs["metrics"] = o.get("metrics")
    obs["members"] = sorted(o.get("members") or [])
    obs["members_order"] = o.get("members")
    obs["scandir_nonidentity"] = api["seam_stats"]["scandir_nonidentity"]
    obs["pool_tasks"] = api["seam_stats"].get("pool_tasks", 0)
    af = os.path.join(top, W.analysis_path(world))
    reports = ["-R", "summary", "-R", "duplicates"] + (["-R", "clustering"] if clustering else [])
    c = runners.run_fresh("cli_run", {"top": top, "cwd": root, "module": "codebasin", "argv": reports + [af],
                                      "scandir_key": None if native else key, "pool_key": pool_key}, hashseed=hs)
    obs["codebasin_rc"] = c["rc"]
    obs["pool_tasks"] += (c.get("seam_stats") or {}).get("pool_tasks", 0)
    obs["codebasin_head"], obs["dup_groups_listed"] = split_codebasin(c["out"])
    obs["dup_groups"] = sorted(sorted(g) for g in obs["dup_groups_listed"])
    for name, extra in (("tree", []), ("tree_prune", ["--prune"]), ("tree_L2", ["-L", "2"])):
        t = runners.run_fresh("cli_run", {"top": top, "cwd": root, "module": "codebasin.tree", "argv": extra + [af],
                                          "scandir_key": None if native else key, "pool_key": pool_key}, hashseed=hs)
        obs[name] = t["out"]
        obs[name + "_rc"] = t["rc"]
    if world["platforms"]:
        p0 = sorted(world["platforms"], key=lambda p: p["name"])[0]
        cv = runners.run_fresh("cli_run", {"top": top, "cwd": root, "module": "codebasin.coverage",
                                           "argv": ["compute", "-S", root, "-o", os.path.join(top, "cov.json"),
                                                    os.path.join(top, p0["db"])],
                                           "scandir_key": None if native else key, "pool_key": pool_key, "keep": []}, hashseed=hs)
        obs["cov_rc"] = cv["rc"]
        cp = os.path.join(top, "cov.json")
        if os.path.exists(cp):
            with open(cp) as f:
                obs["coverage_json"] = f.read().replace(top, "@TOP@")
            os.unlink(cp)
    pr = runners.run_fresh("probe_hash_order", {"names": ["p0", "p1", "p2", "plat0", "plat1", "plat2", "p3", "p4"]},
                           hashseed=hs)
    obs["set_order"] = "".join(pr["order"])
    return obs


def compare(base, var):
    """-> (class, detail) of the first difference, or None."""
    if base["api_exc"] or var["api_exc"]:
        if bool(base["api_exc"]) != bool(var["api_exc"]):
            return "failure_depends_on_schedule", {"baseline": base["api_exc"], "variant": var["api_exc"]}
        return None
    d = core.diff_attr(base["attr"], var["attr"])
    if d:
        return "attribution_depends_on_schedule", {"diffs": d}
    if base["setmap"] != var["setmap"]:
        return "setmap_depends_on_schedule", {"baseline": base["setmap"], "variant": var["setmap"]}
    if base.get("multi_dir") != var.get("multi_dir"):
        return "multi_directory_code_base_depends_on_schedule", {"baseline": base.get("multi_dir"), "variant": var.get("multi_dir")}
    if base["members"] != var["members"]:
        return "membership_depends_on_schedule", {"baseline": base["members"], "variant": var["members"]}
    for k in (base["metrics"] or {}):
        a, b = float(base["metrics"][k]), float((var["metrics"] or {}).get(k, "nan"))
        if a != a and b != b:
            continue
        if abs(a - b) > 1e-9 * max(1.0, abs(a)):
            return "metric_depends_on_schedule", {"metric": k, "baseline": a, "variant": b}
    if base["codebasin_rc"] != var["codebasin_rc"]:
        return "codebasin_exit_depends_on_schedule", {"baseline": base["codebasin_rc"], "variant": var["codebasin_rc"]}
    if base["codebasin_head"] != var["codebasin_head"]:
        return "codebasin_report_depends_on_schedule", {"diff": _first_diff(base["codebasin_head"], var["codebasin_head"])}
    if base["dup_groups"] != var["dup_groups"]:
        return "duplicate_groups_depend_on_schedule", {"baseline": base["dup_groups"], "variant": var["dup_groups"]}
    if base["dup_groups_listed"] != var["dup_groups_listed"]:
        return "duplicates_listing_order_depends_on_schedule", {"baseline": base["dup_groups_listed"],
                                                                "variant": var["dup_groups_listed"]}
    for k in ("tree", "tree_prune", "tree_L2"):
        if base.get(k + "_rc") != var.get(k + "_rc") or base.get(k) != var.get(k):
            return "cbi_tree_output_depends_on_schedule", {"which": k, "diff": _first_diff(base.get(k, ""), var.get(k, ""))}
    if base.get("cov_rc") != var.get("cov_rc") or base.get("coverage_json") != var.get("coverage_json"):
        try:
            a = json.loads(base.get("coverage_json") or "null")
            b = json.loads(var.get("coverage_json") or "null")
            same_set = sorted(json.dumps(x, sort_keys=True) for x in a) == sorted(json.dumps(x, sort_keys=True) for x in b)
        except Exception:  # noqa
            same_set = False
        return ("coverage_export_order_depends_on_schedule" if same_set else "coverage_export_depends_on_schedule"), \
            {"diff": _first_diff(base.get("coverage_json") or "", var.get("coverage_json") or "")}
    return None


def _first_diff(a, b):
    la, lb = a.split("\n"), b.split("\n")
    for i in range(max(len(la), len(lb))):
        x = la[i] if i < len(la) else None
        y = lb[i] if i < len(lb) else None
        if x != y:
            return {"line": i + 1, "baseline": x, "variant": y}
    return None


def execute(case, scratch):
    world, sched = case["world"], case["schedule"]
    stats = {"faults": {}, "probes": {}, "cli_runs": 0, "variants": 0, "subprocess_runs": 0}
    top = scratch.fresh("t")   # every schedule is materialised at the same path
    try:
        W.materialise(world, top)
        base = observe(world, top, {"hashseed": None, "scandir_key": "name", "platform_order": None},
                       sched.get("clustering"), sched.get("multi_dir"))
        stats["variants"] += 1
        stats["cli_runs"] += 4
        if base["codebasin_rc"] not in (0,):
            # an analysis that fails under the baseline schedule cannot be compared
            return {"verdict": "discard", "detail": f"codebasin rc={base['codebasin_rc']}", "stats": stats}
        orders = {base["set_order"]}
        pr = stats["probes"]
        # ties in the summary (two platform sets of the same size) and duplicate classes present?
        sizes = [len(k) for k, v in (base["setmap"] or [])]
        pr["tie_in_summary_rows"] = 1 if len(sizes) != len(set(sizes)) else 0
        pr["duplicate_classes"] = len(base["dup_groups"])
        pr["metric_on_rounding_boundary"] = 1 if (case.get("cfg") or {}).get("profile") == "c14-boundary" else 0
        for vi, v in enumerate(sched["variants"]):
            W.cleanup(top)
            os.makedirs(top)
            W.materialise(world, top, {"creation_order": v.get("creation_order"),
                                       "platform_order": v.get("platform_order")})
            var = observe(world, top, v, sched.get("clustering"), sched.get("multi_dir"))
            stats["variants"] += 1
            stats["cli_runs"] += 4
            orders.add(var["set_order"])
            # tasks the code handed to a (simulated) worker pool: 0 unless the tree under test has one
            pr["worker_pool_tasks"] = pr.get("worker_pool_tasks", 0) + var.get("pool_tasks", 0)
            f = stats["faults"]
            f["hash_seed"] = f.get("hash_seed", 0) + 1
            if v.get("native_order"):
                f["creation_order"] = f.get("creation_order", 0) + 1
            elif var["scandir_nonidentity"]:
                f["scandir_order"] = f.get("scandir_order", 0) + 1
            if v.get("platform_order") and v["platform_order"] != sorted(v["platform_order"]):
                f["platform_order"] = f.get("platform_order", 0) + 1
            diff = compare(base, var)
            if diff:
                return {"verdict": "violation", "stats": stats,
                        "violation": {"class": diff[0], "detail": {"variant": vi, "schedule": {
                            k: v.get(k) for k in ("hashseed", "scandir_key", "native_order", "platform_order")},
                            **diff[1]}}}
        pr["distinct_set_orders"] = len(orders)
        if sched.get("real_subprocess") and sched["variants"]:
            # anchor: the real entry point (python -m codebasin) under two schedules
            root = os.path.join(top, world["root"])
            af = os.path.join(top, W.analysis_path(world))
            outs = []
            for hs, key in ((11, "name"), (12, sched["variants"][0].get("scandir_key") or "zz")):
                r = runners.run_cli_subprocess("codebasin", ["-R", "summary", "-R", "duplicates", af], root, hs, key)
                stats["subprocess_runs"] += 1
                h, g = split_codebasin(r["out"].replace(top, "@TOP@"))
                outs.append((r["rc"], h, g))
            if outs[0] != outs[1]:
                cls = "codebasin_report_depends_on_schedule" if outs[0][:2] != outs[1][:2] else \
                    "duplicates_listing_order_depends_on_schedule"
                return {"verdict": "violation", "stats": stats,
                        "violation": {"class": cls, "detail": {"via": "real subprocess", "diff": _first_diff(outs[0][1], outs[1][1]),
                                                               "groups": [outs[0][2], outs[1][2]]}}}
        return {"verdict": "ok", "stats": stats, "nontrivial": bool(stats["faults"]),
                "obs_digest": core.jdigest({k: base[k] for k in sorted(base)
                                            if k not in ("set_order", "metrics")})}
    finally:
        W.cleanup(top)


def shrink_schedule(case):
    s = case["schedule"]
    if s.get("real_subprocess"):
        c = copy.deepcopy(case)
        c["schedule"]["real_subprocess"] = False
        yield c
    if s.get("clustering"):
        c = copy.deepcopy(case)
        c["schedule"]["clustering"] = False
        yield c
    if len(s["variants"]) > 1:
        for i in range(len(s["variants"])):
            c = copy.deepcopy(case)
            c["schedule"]["variants"] = [c["schedule"]["variants"][i]]
            yield c
    for i, v in enumerate(s["variants"]):
        for k, val in (("platform_order", None), ("creation_order", None)):
            if v.get(k):
                c = copy.deepcopy(case)
                c["schedule"]["variants"][i][k] = val
                yield c


TIERS = {"quick": {"runs": 480, "wall_cap": 480, "opts": {"gen": {"nvariants": 2}}},
         "thorough": {"runs": 8000, "wall_cap": 3300,
                      "opts": {"gen": {"nvariants": 5, "hashseeds": HASHSEEDS_THOROUGH}}}}
RULE = ("one run = one generated multi-directory world (2..5 platforms, engineered byte-identical copies forming duplicate "
        "classes, unused files, nested directories) executed under a baseline schedule (hash seed 0, entries enumerated by "
        "name, tables as written) and 2 (quick) / 5 (thorough) variant schedules, each = (interpreter hash seed, directory "
        "enumeration order by keyed permutation or native order after permuted file creation, [platform.*] table "
        "permutation); every schedule runs codebasin (summary, duplicates, clustering in 1/3 of runs), cbi-tree with and "
        "without --prune, cbi-cov compute, and the in-process API; ~4% of runs also go through the real python -m codebasin; "
        "15% of the worlds are constructed so that the exact code divergence or average coverage lies on a two-decimal "
        "rounding boundary; non-trivial = at least one variant differed from the baseline in hash seed, enumeration order or table order; "
        "distinct = distinct sha256(world, schedule)")
ASSUMPTIONS = [
    "observation = what is printed/exported (row order and labels included); dropped as run-specific: 'Log file created at', 'Dendrogram written to' (file name legitimately carries platforms in table order)",
    "duplicate groups are compared as sets; the printed order of groups and members is compared separately (class duplicates_listing_order_depends_on_schedule)",
    "in-process metric floats are compared within 1e-9 relative; printed metrics byte for byte",
    "hash seeds are sampled (one zygote interpreter per seed), not enumerated",
]


def dead_probes(tier, cov):
    dead = [k for k in ("hash_seed", "scandir_order", "creation_order", "platform_order")
            if cov["faults_fired"].get(k, 0) == 0]
    dead += [k for k in ("tie_in_summary_rows", "duplicate_classes", "distinct_set_orders", "metric_on_rounding_boundary")
             if cov["probes"].get(k, 0) == 0]
    return dead if cov["evaluations"] >= 100 else []
