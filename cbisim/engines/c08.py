"""C08 - translation units and platforms are analysed in isolation and compose.

The simulated system is "one interpreter process + its module globals + one ParserState"; the schedule
is the *history* of translation units: which are analysed together, in which order, sharing which
process.  Oracle (the property itself): composed run == union of fork-fresh single-command runs ==
union over any partition == permuted run; -p subset == projection; an analysis run after others in the
same interpreter == the same analysis run fresh.
"""
import copy
import os
import re

from .. import core, gen, runners
from .. import world as W

PID = "C08"

def generate(seed, scratch):
    r = core.rng_for(seed, "gen")
    world, cfg = gen.gen_world(r, "c08")
    rs = core.rng_for(seed, "sched")
    if cfg["cbi_config"]:
        gen.apply_user_compiler(world, rs)
    ents = [[pi, ei] for pi, p in enumerate(world["platforms"]) for ei in range(len(p["entries"]))]
    rs.shuffle(ents)
    k = rs.randint(2, 4)
    partition = [ents[i::k] for i in range(k)]
    partition = [sorted(g) for g in partition if g]
    names = [p["name"] for p in world["platforms"]]
    sub = sorted(rs.sample(names, rs.randint(1, len(names)))) if names else []
    plat_perm = list(range(len(names)))
    rs.shuffle(plat_perm)
    cmd_perm = {}
    for p in world["platforms"]:
        pp = list(range(len(p["entries"])))
        rs.shuffle(pp)
        cmd_perm[p["name"]] = pp
    share = list(range(len(names)))
    rs.shuffle(share)
    fresh = sorted(rs.sample(range(len(ents)), min(len(ents), 3))) if ents else []
    # the tree changes between two analyses of one interpreter: a generated header appears in a directory that did not
    # have one of that name (it may shadow the copy found so far), or a header disappears
    env = None
    hs = sorted(p for p in world["files"] if p.endswith((".h", ".hpp")) and p.startswith(world["root"] + "/"))
    if hs and rs.random() < 0.3:
        h = rs.choice(hs)
        if rs.random() < 0.6:
            dirs = sorted({os.path.dirname(p) for p in world["files"] if p.startswith(world["root"])})
            cand = [d for d in dirs if os.path.join(d, os.path.basename(h)) not in world["files"]
                    and os.path.join(d, os.path.basename(h)) not in world.get("dirs", [])
                    and not any(f.startswith(os.path.join(d, os.path.basename(h)) + "/") for f in world["files"])
                    and not any(l["path"] == os.path.join(d, os.path.basename(h)) for l in world.get("links", []))]
            if cand:
                env = {"kind": "add", "path": os.path.join(rs.choice(cand), os.path.basename(h)),
                       "text": "#define %s 1\nint appeared_later;\n" % rs.choice(["S0", "S1", "A", "V"])}
        else:
            env = {"kind": "remove", "path": h}
    return {"property": PID, "seed": seed, "world": world, "cfg": cfg,
            "schedule": {"partition": partition, "subset": sub, "platform_order": plat_perm,
                         "command_order": cmd_perm, "share_order": share, "cli": rs.random() < 0.5,
                         "fresh_sample": fresh, "env_change": env}}


def _sub_world_dbs(world, top, group, tag):
    """Write databases holding only the entries in `group` -> platform specs (platform order kept)."""
    by_plat = {}
    for pi, ei in group:
        by_plat.setdefault(pi, []).append(ei)
    specs = []
    for pi in sorted(by_plat):
        p = world["platforms"][pi]
        ents = [p["entries"][ei] for ei in sorted(by_plat[pi]) if ei < len(p["entries"])]
        path = core.write_db(world, top, p["name"], ents, f"proj/db/{tag}-{p['name']}.json")
        specs.append({"name": p["name"], "db": path})
    return specs


def parse_summary(out):
    rows = {}
    for line in out.split("\n"):
        m = re.match(r"^\s*[│|]\s*\{(.*?)\}\s*[│|]\s*(\d+)\s*[│|]", line)
        if m:
            names = frozenset(x.strip() for x in m.group(1).split(",") if x.strip())
            rows[names] = rows.get(names, 0) + int(m.group(2))
    return rows


def project(setmap, subset):
    s = set(subset)
    out = {}
    for plats, n in setmap:
        k = frozenset(p for p in plats if p in s)
        out[k] = out.get(k, 0) + n
    return {k: v for k, v in out.items() if v}


def execute(case, scratch):
    world, sched = copy.deepcopy(case["world"]), case["schedule"]
    W.normalise_shared_dbs(world)
    top = scratch.fresh("t")
    stats = {"tus": 0, "faults": {}, "probes": {}, "cli_runs": 0, "variants": 0}
    try:
        W.materialise(world, top)
        excl = world.get("excludes", [])
        nplat = len(world["platforms"])
        all_ents = [[pi, ei] for pi, p in enumerate(world["platforms"]) for ei in range(len(p["entries"]))]
        stats["tus"] = len(all_ents)

        def viol(cls, detail):
            return {"verdict": "violation", "stats": stats, "violation": {"class": cls, "detail": detail}}

        # H0: composed
        h0 = core.run_api(world, top)["obs"][0]
        stats["variants"] += 1
        # H_iso: every command alone, each from a pristine interpreter
        iso = []
        iso_exc = None
        skip = set(sched.get("skip", []))
        # every command alone (own ParserState, own Platform): all of them inside one child ...
        if "iso" not in skip and all_ents:
            analyses = [{"platforms": _sub_world_dbs(world, top, [g], f"iso{gi}"), "excludes": excl}
                        for gi, g in enumerate(all_ents)]
            iso = core.run_api(world, top, analyses=analyses)["obs"]
            stats["variants"] += len(all_ents)
            for o in iso:
                if o["exc"]:
                    iso_exc = o["exc"]
                    break
            # ... and a scheduler-chosen sample of them each in a pristine interpreter (module-level state)
            if not iso_exc:
                for gi in [x for x in sched.get("fresh_sample", []) if x < len(all_ents)]:
                    o = core.run_api(world, top, analyses=[analyses[gi]])["obs"][0]
                    stats["variants"] += 1
                    stats["faults"]["fresh_single_command"] = stats["faults"].get("fresh_single_command", 0) + 1
                    if o["exc"]:
                        iso_exc = o["exc"]
                        break
                    d = core.diff_attr(o["attr"], iso[gi]["attr"])
                    if d or o["db"] != iso[gi]["db"]:
                        return viol("single_command_depends_on_earlier_commands_in_process",
                                    {"command": all_ents[gi], "diffs": d, "db_equal": o["db"] == iso[gi]["db"],
                                     "left": "fresh interpreter", "right": "after other commands"})
        if h0["exc"] and iso_exc:
            return {"verdict": "discard", "detail": "raises in isolation too: " + str(iso_exc), "stats": stats}
        if iso_exc:
            return {"verdict": "discard", "detail": "isolated run raises", "stats": stats}
        if h0["exc"]:
            return viol("composed_run_fails_but_isolated_runs_succeed", h0["exc"])
        if all_ents and "iso" not in skip:
            u = core.union_attr(iso)
            d = core.diff_attr(h0["attr"], u)
            if d:
                return viol("composed_differs_from_union_of_isolated", {"diffs": d, "left": "composed", "right": "union"})
        # H_part
        parts = [[g for g in grp if g in all_ents] for grp in sched.get("partition", [])]
        parts = [g for g in parts if g]
        covered = sorted(x for g in parts for x in g)
        if parts and covered == sorted(all_ents) and len(parts) > 1 and "part" not in skip:
            po = []
            for gi, grp in enumerate(parts):
                o = core.run_api(world, top, analyses=[{"platforms": _sub_world_dbs(world, top, grp, f"part{gi}"),
                                                        "excludes": excl}])["obs"][0]
                stats["variants"] += 1
                if o["exc"]:
                    return viol("partition_run_fails", {"group": grp, "exc": o["exc"]})
                po.append(o)
            d = core.diff_attr(h0["attr"], core.union_attr(po))
            stats["faults"]["partition"] = stats["faults"].get("partition", 0) + 1
            if d:
                return viol("composed_differs_from_union_of_partition", {"diffs": d, "partition": parts})
        # H_perm: platform tables and commands permuted, one process
        ident = all(v == sorted(v) for v in (sched.get("command_order") or {}).values()) and \
            (sched.get("platform_order") or []) == sorted(sched.get("platform_order") or [])
        if "perm" not in skip and not ident:
            top2 = scratch.fresh("p")
            try:
                W.materialise(world, top2, {"command_order": sched.get("command_order"),
                                            "platform_order": sched.get("platform_order")})
                hp = core.run_api(world, top2, analyses=[{
                    "platforms": core.plat_specs(world, top2, order=sched.get("platform_order")),
                    "excludes": excl}])["obs"][0]
            finally:
                W.cleanup(top2)
            stats["variants"] += 1
            stats["faults"]["order_permutation"] = 1
            if hp["exc"]:
                return viol("permuted_run_fails", hp["exc"])
            d = core.diff_attr(h0["attr"], hp["attr"])
            if d:
                return viol("attribution_depends_on_command_order",
                            {"diffs": d, "left": "as written", "right": "permuted"})
        # H_sub: -p subset == projection
        sub = [s for s in sched.get("subset", []) if s in [p["name"] for p in world["platforms"]]]
        if sub and nplat and "sub" not in skip:
            hs = core.run_api(world, top, analyses=[{"platforms": core.plat_specs(world, top, names=set(sub)),
                                                     "excludes": excl}])["obs"][0]
            stats["variants"] += 1
            if hs["exc"]:
                return viol("subset_run_fails", hs["exc"])
            d = core.diff_attr(core.restrict_attr(h0["attr"], sub), hs["attr"], files=sorted(hs["attr"]))
            if len(sub) < nplat:
                stats["faults"]["platform_subset"] = 1
            if d:
                return viol("subset_differs_from_projection", {"diffs": d, "subset": sub})
            if sched.get("cli"):
                root = os.path.join(top, world["root"])
                argv = ["-R", "summary"]
                for s in sub:
                    argv += ["-p", s]
                argv.append(os.path.join(top, W.analysis_path(world)))
                cres = runners.run_fresh("cli_run", {"top": top, "cwd": root, "module": "codebasin", "argv": argv})
                stats["cli_runs"] += 1
                if cres["rc"] != 0:
                    return viol("cli_subset_failed", {"rc": cres["rc"], "out": cres["out"][-400:]})
                rows = {k: v for k, v in parse_summary(cres["out"]).items() if v}
                want = project(h0["setmap"], sub)
                # the table parser is only trusted if it reads the unrestricted run's table back exactly
                # (a change of table layout must not turn into an alarm about -p)
                full = runners.run_fresh("cli_run", {"top": top, "cwd": root, "module": "codebasin",
                                                     "argv": ["-R", "summary", os.path.join(top, W.analysis_path(world))]})
                stats["cli_runs"] += 1
                allp = [p["name"] for p in world["platforms"]]
                parser_ok = {k: v for k, v in parse_summary(full["out"]).items() if v} == project(h0["setmap"], allp)
                if not parser_ok:
                    stats["probes"]["summary_table_unparseable"] = 1
                if parser_ok and rows != want:
                    return viol("cli_subset_summary_differs_from_projection",
                                {"subset": sub, "printed": sorted([sorted(k), v] for k, v in rows.items()),
                                 "projection": sorted([sorted(k), v] for k, v in want.items())})
                # "-p S" must behave like an analysis file that only has the tables of S (both front ends)
                subfile = os.path.join(top, "proj/db/analysis_subset.toml")
                with open(os.path.join(top, W.analysis_path(world))) as fh:
                    text = fh.read()
                head = text.split("\n[platform.")[0]
                with open(subfile, "w") as fh:
                    fh.write(head)
                    for p in world["platforms"]:
                        if p["name"] in sub:
                            fh.write(f"\n[platform.{p['name']}]\ncommands = \"{os.path.join(top, p['db'])}\"\n")
                pflags = [x for s_ in sub for x in ("-p", s_)]
                for module, base in (("codebasin", ["-R", "summary"]), ("codebasin.tree", [])):
                    a = runners.run_fresh("cli_run", {"top": top, "cwd": root, "module": module,
                                                      "argv": base + pflags + [os.path.join(top, W.analysis_path(world))]})
                    b = runners.run_fresh("cli_run", {"top": top, "cwd": root, "module": module,
                                                      "argv": base + [subfile]})
                    stats["cli_runs"] += 2
                    ao = "\n".join(l for l in a["out"].split("\n") if not l.startswith("Log file created"))
                    bo = "\n".join(l for l in b["out"].split("\n") if not l.startswith("Log file created"))
                    if (a["rc"], ao) != (b["rc"], bo):
                        from . import c14

                        return viol("dash_p_differs_from_subset_analysis_file",
                                    {"front_end": module, "subset": sub, "rc": [a["rc"], b["rc"]],
                                     "diff": c14._first_diff(ao, bo)})
        # H_share: successive analyses inside one interpreter vs each fresh
        order = [i for i in sched.get("share_order", []) if i < nplat]
        if len(order) >= 2 and "share" not in skip:
            analyses = [{"platforms": core.plat_specs(world, top, names={world["platforms"][i]["name"]}),
                         "excludes": excl} for i in order]
            shared = core.run_api(world, top, analyses=analyses)["obs"]
            stats["variants"] += 1
            stats["faults"]["process_sharing"] = 1
            for k, i in enumerate(order):
                fresh = core.run_api(world, top, analyses=[analyses[k]])["obs"][0]
                stats["variants"] += 1
                if fresh["exc"] and shared[k]["exc"]:
                    continue
                if bool(fresh["exc"]) != bool(shared[k]["exc"]):
                    return viol("shared_process_changes_failure", {"position": k, "fresh": fresh["exc"],
                                                                    "shared": shared[k]["exc"]})
                d = core.diff_attr(fresh["attr"], shared[k]["attr"])
                if d or fresh["db"] != shared[k]["db"]:
                    return viol("result_depends_on_earlier_analyses_in_process",
                                {"position": k, "platform": world["platforms"][i]["name"], "diffs": d,
                                 "db_equal": fresh["db"] == shared[k]["db"]})
        # H_env (last: it changes the tree): analyse, change the tree, analyse again in the SAME interpreter; the second
        # analysis must equal a fresh interpreter's view of the changed tree
        ec = sched.get("env_change")
        if ec and "env" not in skip and world["platforms"] and not h0["exc"]:
            full = {"platforms": core.plat_specs(world, top), "excludes": excl}
            path = os.path.join(top, ec["path"])
            ops = [["write", path, ec["text"]]] if ec["kind"] == "add" else [["unlink", path]]
            two = core.run_api(world, top, analyses=[full, full], fs_ops_after={"index": 0, "ops": ops})["obs"]
            freshc = core.run_api(world, top, analyses=[full])["obs"][0]
            stats["variants"] += 2
            stats["faults"]["tree_changed_between_analyses"] = 1
            if bool(freshc["exc"]) != bool(two[1]["exc"]) or (not freshc["exc"] and (
                    core.diff_attr(freshc["attr"], two[1]["attr"]) or freshc["db"] != two[1]["db"])):
                return viol("second_analysis_sees_stale_file_system",
                            {"change": ec["kind"], "path": ec["path"], "fresh_exc": freshc["exc"], "shared_exc": two[1]["exc"],
                             "diffs": core.diff_attr(freshc.get("attr") or {}, two[1].get("attr") or {})})
        multi = sum(1 for p in world["platforms"] if len(p["entries"]) > 1)
        stats["probes"]["platform_with_several_commands"] = multi
        stats["probes"]["user_compiler_config"] = 1 if world.get("cbi_config") else 0
        return {"verdict": "ok", "stats": stats, "nontrivial": len(all_ents) >= 2,
                "obs_digest": core.jdigest([h0["attr"], h0["setmap"], sorted(h0["events"])])}
    finally:
        W.cleanup(top)


def shrink_schedule(case):
    s = case["schedule"]
    for h in ("iso", "part", "perm", "sub", "share", "env"):
        if h not in s.get("skip", []):
            c = copy.deepcopy(case)
            c["schedule"].setdefault("skip", []).append(h)
            yield c
    if s.get("cli"):
        c = copy.deepcopy(case)
        c["schedule"]["cli"] = False
        yield c
    if s.get("fresh_sample"):
        c = copy.deepcopy(case)
        c["schedule"]["fresh_sample"] = []
        yield c
    if len(s.get("share_order", [])) > 2:
        for i in range(len(s["share_order"])):
            c = copy.deepcopy(case)
            del c["schedule"]["share_order"][i]
            yield c


TIERS = {"quick": {"runs": 1200, "wall_cap": 480}, "thorough": {"runs": 25000, "wall_cap": 3300}}
RULE = ("one run = one generated world (1..4 platforms, several commands per platform on overlapping files, per-command or uniform "
        "flag sets, shared headers that define/undefine/test macros, re-inclusion-sensitive once/guarded headers, function-like / "
        "self-referential / pasting / variadic macro snippets, optionally a user .cbi/config with store_split / extend_match / "
        "append_const options, modes and passes, built-in multi-pass flags, platforms sharing one database, C/C++/Fortran units) "
        "executed under these history shapes: composed; every command alone (all in sequence in one interpreter, and a scheduler-chosen "
        "sample of three each in a pristine interpreter); a scheduler-chosen partition; permuted platform and command order; -p subset "
        "(API, codebasin front end, and '-p S' against an analysis file holding only S for codebasin and cbi-tree); successive analyses "
        "sharing one interpreter vs fresh; non-trivial = at least two compile commands; distinct = distinct sha256(world, schedule)")
ASSUMPTIONS = [
    "metamorphic: CBI is compared with CBI; a 'fresh' baseline is a fork of an interpreter that imported codebasin but never executed it",
    "only per-line attribution, database entries and the summary table are compared, never warnings or log text",
    "two different worlds are never analysed in one interpreter (./.cbi/config is read once per process by design)",
    "the open finding D6 (language of a shared out-of-tree header depends on the first includer) is kept out of the random search by not mixing Fortran and C translation units; its reproducer is replayed on every run",
    "sampled, not exhaustive",
]


def dead_probes(tier, cov):
    need = ["platform_with_several_commands", "user_compiler_config"]
    dead = [k for k in need if cov["probes"].get(k, 0) == 0]
    dead += [k for k in ("partition", "order_permutation", "platform_subset", "process_sharing")
             if cov["faults_fired"].get(k, 0) == 0]
    return dead if cov["evaluations"] >= 100 else []


def matches_known(kid, case, violation):
    """Signature predicates of open findings (decided on the structure of the case, not on text)."""
    if kid == "D6":
        w = case["world"]
        root = w["root"] + "/"
        fortran = {".f90", ".F90", ".f", ".F", ".ftn", ".FTN", ".fpp", ".FPP", ".FOR"}
        langs = set()
        for p in w["platforms"]:
            for e in p["entries"]:
                langs.add("fortran" if os.path.splitext(e["file"])[1] in fortran else "c")
        outside = [f for f in w["files"] if not f.startswith(root)]
        excluded = bool(w.get("excludes"))
        return len(langs) == 2 and bool(outside or excluded)
    return False
