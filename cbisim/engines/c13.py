"""C13 - compilation-database entries resolve to the right files and directories; faulty entries are
skipped with a warning and never abort or alter the rest of the analysis.

Environment dimensions: process cwd vs analysis root vs the entry's `directory`, spelling of every path;
faults: entries for absent files, non-source files, empty commands placed among healthy ones.
Oracles: (i) independent path model (compilation-database spec) for file / include directories and the
resulting attribution; (ii) fault isolation: the run with faulty entries == the run without them;
(iii) one warning per skipped entry; (iv) cbi-cov -S launched from another cwd agrees with the model.
"""
import copy
import json
import os

from .. import core, gen, refmodel, runners
from .. import world as W

PID = "C13"


def generate(seed, scratch):
    r = core.rng_for(seed, "gen")
    world, cfg = gen.gen_world(r, "c13")
    rs = core.rng_for(seed, "sched")
    return {"property": PID, "seed": seed, "world": world, "cfg": cfg,
            "schedule": {"cwd": rs.choice(["root", "root", "bld", "top", "d1"]),
                         "cov": rs.random() < 0.3, "cov_rel_S": rs.random() < 0.5,
                         "fault_free": all(v == 0 for v in cfg["faults"].values())}}


def _cwd(world, top, name):
    return {"root": os.path.join(top, world["root"]), "bld": os.path.join(top, gen.BUILD_OUT),
            "top": top, "d1": os.path.join(top, world["root"], "d1")}[name]


def healthy_world(world, top):
    """The same world with every faulty entry removed."""
    w = copy.deepcopy(world)
    root = os.path.join(top, world["root"])
    removed = 0
    for p in w["platforms"]:
        keep = []
        for e in p["entries"]:
            if refmodel.entry_fault(W.concrete_entry(e, top), root):
                removed += 1
            else:
                keep.append(e)
        p["entries"] = keep
    return w, removed


def execute(case, scratch):
    world, sched = case["world"], case["schedule"]
    top = scratch.fresh("t")
    stats = {"tus": 0, "lookups": 0, "faults": {}, "probes": {}, "cli_runs": 0, "variants": 0}
    try:
        W.materialise(world, top)
        os.makedirs(_cwd(world, top, sched["cwd"]), exist_ok=True)
        model = refmodel.Model(world, top)
        try:
            ev = model.evaluate()
        except refmodel.InvalidWorld as e:
            return {"verdict": "invalid", "detail": str(e), "stats": stats}
        stats["tus"], stats["lookups"] = ev["tus"], ev["lookups"]
        f = stats["faults"]
        for (_, _, fault, _) in ev["db_events"]:
            f[fault] = f.get(fault, 0) + 1
        pr = stats["probes"]
        root = model.root
        for p in world["platforms"]:
            for e0 in p["entries"]:
                e = W.concrete_entry(e0, top)
                d = e.get("directory")
                if d is not None and not os.path.isabs(d):
                    pr["relative_directory"] = pr.get("relative_directory", 0) + 1
                if d is not None and os.path.normpath(d if os.path.isabs(d) else os.path.join(root, d)) != root:
                    pr["directory_not_root"] = pr.get("directory_not_root", 0) + 1
                    a = refmodel.parse_argv(W.entry_argv(e))
                    if any(not os.path.isabs(x) for x in a["I"] + a["isystem"]):
                        pr["relative_I_with_build_dir"] = pr.get("relative_I_with_build_dir", 0) + 1
                if ".." in e["file"].split("/"):
                    pr["dotdot_in_file"] = pr.get("dotdot_in_file", 0) + 1
        pr["cwd_not_root"] = 0 if sched["cwd"] == "root" else 1

        res = core.run_api(world, top, cwd=_cwd(world, top, sched["cwd"]))
        obs = res["obs"][0]
        stats["variants"] += 1
        if obs["exc"]:
            return {"verdict": "violation", "stats": stats,
                    "violation": {"class": "analysis_aborted", "detail": obs["exc"]}}
        # (i) path model
        for p in world["platforms"]:
            expc = []
            for ei, e0 in enumerate(p["entries"]):
                e = W.concrete_entry(e0, top)
                if refmodel.entry_fault(e, root):
                    continue
                cfg = refmodel.entry_config(e, root)
                for _ in refmodel.compiler_passes(cfg["compiler"], cfg["other"]):
                    expc.append([cfg["file"].replace(top, "@TOP@"), [x.replace(top, "@TOP@") for x in cfg["search"]]])
            # the search list is every "*include_paths" value of the entry, in key order (an
            # implementation may keep -isystem directories under a key of their own)
            got = [[x["file"], [d for k in x if k.endswith("include_paths") for d in x[k]]]
                   for x in obs["db"][p["name"]]]
            if got != expc:
                i = next((i for i, (a, b) in enumerate(zip(got, expc)) if a != b), min(len(got), len(expc)))
                return {"verdict": "violation", "stats": stats,
                        "violation": {"class": "entry_paths_differ_from_model",
                                      "detail": {"platform": p["name"], "index": i,
                                                 "got": got[i] if i < len(got) else None,
                                                 "expected": expc[i] if i < len(expc) else None,
                                                 "n_got": len(got), "n_expected": len(expc)}}}
        parsed = sorted(set(model.members()) | ev["reached"])
        exp = core.model_attr(model, ev, parsed)
        got = {fn: obs["attr"].get(fn) for fn in parsed if fn in obs["attr"]}
        diffs = core.diff_attr(exp, got, files=parsed)
        if diffs:
            return {"verdict": "violation", "stats": stats,
                    "violation": {"class": "attribution_differs_from_model", "detail": {"diffs": diffs}}}
        # (iii) one warning per skipped entry
        recs = [m for lv, nm, m in obs["events"] if lv == "WARNING"]
        left = list(recs)
        for p in world["platforms"]:
            for ei, e0 in enumerate(p["entries"]):
                e = W.concrete_entry(e0, top)
                fault = refmodel.entry_fault(e, root)
                if not fault:
                    continue
                names = [e["file"].replace(top, "@TOP@"), refmodel.entry_paths(e, root)[1].replace(top, "@TOP@")]
                hit = next((i for i, m in enumerate(left) if any(n in m for n in names)), None)
                if hit is None:
                    return {"verdict": "violation", "stats": stats,
                            "violation": {"class": "skipped_entry_without_warning." + fault,
                                          "detail": {"platform": p["name"], "entry": ei, "file": names[0],
                                                     "warnings": recs[:5]}}}
                del left[hit]
        # (ii) isolation: same result without the faulty entries
        hw, removed = healthy_world(world, top)
        if removed:
            top2 = scratch.fresh("h")
            try:
                W.materialise(hw, top2)
                res2 = core.run_api(hw, top2, cwd=_cwd(hw, top2, sched["cwd"]) if os.path.isdir(_cwd(hw, top2, sched["cwd"])) else None)
            finally:
                pass
            stats["variants"] += 1
            obs2 = res2["obs"][0]
            W.cleanup(top2)
            if obs2["exc"]:
                return {"verdict": "discard", "detail": "healthy world raises", "stats": stats}
            d = core.diff_attr(obs["attr"], obs2["attr"])
            if d or obs["setmap"] != obs2["setmap"] or obs["db"] != obs2["db"]:
                return {"verdict": "violation", "stats": stats,
                        "violation": {"class": "faulty_entry_alters_analysis",
                                      "detail": {"diffs": d, "setmap": [obs["setmap"], obs2["setmap"]]}}}
        # (iv) cbi-cov from another cwd
        if sched.get("cov") and world["platforms"]:
            p = world["platforms"][0]
            cwd = os.path.join(top, gen.BUILD_OUT)
            os.makedirs(cwd, exist_ok=True)
            cres = runners.run_fresh("cli_run", {"top": top, "cwd": cwd, "module": "codebasin.coverage",
                                                 "argv": ["compute", "-S", os.path.relpath(root, cwd) if sched.get("cov_rel_S") else root,
                                                          "-o", os.path.join(cwd, "cov.json"),
                                                          os.path.join(top, p["db"])],
                                                 "keep": ["cov.json", "cbi.log"]})
            stats["cli_runs"] += 1
            if cres["rc"] != 0 or "cov.json" not in cres["files"]:
                return {"verdict": "violation", "stats": stats,
                        "violation": {"class": "cbi_cov_failed",
                                      "detail": {"rc": cres["rc"], "err": cres["err"][-600:], "out": cres["out"][-300:]}}}
            cov = json.loads(cres["files"]["cov.json"])
            ev1 = model.evaluate(platforms=[p["name"]])
            got_used = {os.path.normpath(os.path.join(world["root"], c["file"])): sorted(c["used_lines"]) for c in cov}
            for rel in model.members():
                expu = sorted(l for l in model.counted_lines(rel) if ev1["used"].get(rel, {}).get(l))
                if got_used.get(rel) != expu:
                    return {"verdict": "violation", "stats": stats,
                            "violation": {"class": "coverage_differs_from_model",
                                          "detail": {"file": rel, "got": got_used.get(rel), "expected": expu}}}
        nontrivial = bool(removed or pr.get("directory_not_root") or pr.get("relative_directory")
                          or pr.get("dotdot_in_file") or pr["cwd_not_root"])
        return {"verdict": "ok", "stats": stats, "nontrivial": nontrivial,
                # (the passes of a multi-pass compiler come out of a set: their order follows the interpreter's hash
                # seed and is no result; the digest takes the loaded configuration as a multiset)
                "obs_digest": core.jdigest([obs["attr"], obs["setmap"], sorted(obs["events"]),
                                            sorted(json.dumps(x, sort_keys=True) for x in obs["db"])])}
    finally:
        W.cleanup(top)


TIERS = {"quick": {"runs": 5000, "wall_cap": 420}, "thorough": {"runs": 120000, "wall_cap": 3000}}
RULE = ("one run = one generated world whose database entries spell file / directory / -I / -isystem as absolute, "
        "root-relative, build-directory-relative (build directory inside or outside the root, absolute or relative), with "
        "./ and d/../d segments, as command string or arguments array, with 0..3 faulty entries (absent file, non-source "
        "file, empty command) placed among healthy ones; analysed from a scheduler-chosen process cwd; plus the same world "
        "without the faulty entries, plus cbi-cov -S from another cwd in 30% of runs; non-trivial = a faulty entry was "
        "present, or directory differed from the root / was relative, or a .. segment occurred, or cwd differed from the "
        "root; distinct = distinct sha256(world, schedule)")
ASSUMPTIONS = [
    "path model = JSON compilation database specification: directory relative to the analysis root when not absolute; file and -I/-isystem values relative to directory; lexical normalisation of . and .. (the generator places .. only after real directories)",
    "reference model as in C04",
    "a warning for a skipped entry must mention the entry's file (as spelled or resolved); wording is free",
    "sampled, not exhaustive",
]


def dead_probes(tier, cov):
    need = ["relative_directory", "directory_not_root", "relative_I_with_build_dir", "dotdot_in_file", "cwd_not_root"]
    dead = [k for k in need if cov["probes"].get(k, 0) == 0]
    dead += [k for k in ("missing_file", "non_source", "empty_command") if cov["faults_fired"].get(k, 0) == 0]
    return dead if cov["evaluations"] >= 200 else []


def extra_checks(tier, verif_seed, out):
    """Path model + preprocessor model against gcc -E run from each entry's directory."""
    from .. import gcccheck

    n = 80 if tier == "quick" else 3000
    res = gcccheck.run(n, verif_seed, "c13")
    out(f"[{PID}] model_vs_gcc: {res['tus']} TUs of {res['worlds']} worlds, {res['mismatches']} mismatches")
    if res["mismatches"]:
        raise runners.HarnessError(f"path/reference model disagrees with gcc: {res['examples'][:2]}")
    return {"model_vs_gcc": {k: res[k] for k in ("worlds", "tus", "mismatches", "skipped")}}, []
