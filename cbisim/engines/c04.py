"""C04 - #include resolution and attribution across files follow compiler rules.

Simulated system: the per-translation-unit resolver (ordered search list + memo + once-list) over
the history of look-ups of a TU.  Oracle: refinement against the stateless reference resolver /
preprocessor; memo eviction (buggify) must not change anything.
"""
import os

from .. import core, gen, refmodel
from .. import world as W

PID = "C04"
FAULT_KINDS = ["cache_eviction", "flag_order", "same_name_headers"]


def generate(seed, scratch):
    r = core.rng_for(seed, "gen")
    world, cfg = gen.gen_world(r, "c04")
    top = scratch.fresh("g")
    try:
        W.materialise(world, top)
        repairs, ev = core.repair_missing(world, top)
    finally:
        W.cleanup(top)
    rs = core.rng_for(seed, "sched")
    nlook = max(1, ev["lookups"])
    evict = "all" if rs.random() < 0.3 else sorted(rs.sample(range(nlook + 2), min(nlook, rs.randint(1, 4))))
    # driver 1: an API history over the world's directories
    hdr_names = sorted({os.path.basename(p) for p in world["files"] if not os.path.basename(p).startswith("s")})
    dirs = sorted({os.path.dirname(p) for p in world["files"]})
    ops = []
    if hdr_names:
        inc = rs.sample(dirs, rs.randint(0, min(3, len(dirs))))
        pool = rs.sample(hdr_names, min(len(hdr_names), rs.randint(1, 2)))
        for _ in range(rs.randint(2, 24)):
            ops.append([rs.choice(pool), rs.choice(dirs), rs.random() < 0.4])
        api = {"include_paths": inc, "ops": ops,
               "evict": sorted(rs.sample(range(len(ops)), rs.randint(0, min(3, len(ops)))))}
    else:
        api = None
    return {"property": PID, "seed": seed, "world": world, "cfg": cfg,
            "schedule": {"evict": evict, "api": api}, "repairs": repairs}


def _api_reference(top, api):
    res = []
    for sp, d, sysinc in api["ops"]:
        dirs = ([] if sysinc else [os.path.join(top, d)]) + [os.path.join(top, x) for x in api["include_paths"]]
        found = None
        for x in dirs:
            p = os.path.join(x, sp)
            if os.path.isfile(p):
                found = os.path.relpath(os.path.realpath(p), top)
                break
        res.append(found)
    return res


def execute(case, scratch):
    world, sched = case["world"], case["schedule"]
    top = scratch.fresh("t")
    stats = {"tus": 0, "lookups": 0, "faults": {}, "probes": {}, "ops": 0}
    try:
        W.materialise(world, top)
        model = refmodel.Model(world, top)
        try:
            ev = model.evaluate()
        except refmodel.InvalidWorld as e:
            return {"verdict": "invalid", "detail": str(e), "stats": stats}
        stats["tus"] = ev["tus"]
        stats["lookups"] = ev["lookups"]
        stats["probes"] = dict(ev["probes"])
        stats["probes"]["missing_after_repair"] = len(ev["events"])
        res = core.run_api(world, top)
        obs = res["obs"][0]
        if obs["exc"]:
            return {"verdict": "violation", "stats": stats,
                    "violation": {"class": "sut_exception", "detail": obs["exc"]}}
        parsed = sorted(set(model.members()) | ev["reached"])
        exp = core.model_attr(model, ev, parsed)
        got = {f: obs["attr"].get(f) for f in parsed if f in obs["attr"]}
        diffs = core.diff_attr(exp, got, files=parsed)
        if diffs:
            kinds = set()
            for d in diffs:
                if d[0] == "line":
                    kinds.add("header" if not os.path.basename(d[1]).startswith("s") else "source")
            return {"verdict": "violation", "stats": stats,
                    "violation": {"class": "attribution_differs_from_model",
                                  "detail": {"diffs": diffs, "expected_first": "left", "in": sorted(kinds)}}}
        # F7: memo eviction must be invisible
        res2 = core.run_api(world, top, evict=sched["evict"])
        ev_n = res2["seam_stats"]["evictions"]
        stats["faults"]["cache_eviction"] = ev_n
        obs2 = res2["obs"][0]
        if obs2["exc"] or core.diff_attr(obs["attr"], obs2["attr"]):
            return {"verdict": "violation", "stats": stats,
                    "violation": {"class": "memo_eviction_changes_result",
                                  "detail": {"exc": obs2["exc"],
                                             "diffs": core.diff_attr(obs["attr"], obs2.get("attr", {}))}}}
        # driver 1: API history against the stateless reference resolver
        api = sched.get("api")
        if api:
            from .. import runners

            spec = {"top": top, "root": os.path.join(top, world["root"]),
                    "include_paths": [os.path.join(top, d) for d in api["include_paths"]],
                    "ops": [[sp, os.path.join(top, d), s] for sp, d, s in api["ops"]],
                    "evict": api.get("evict")}
            r = runners.run_fresh("platform_history", spec)
            if "unavailable" in r:
                stats["probes"]["api_driver_unavailable"] = 1
            else:
                stats["ops"] = len(api["ops"])
                ref = _api_reference(top, api)
                if r["results"] != ref:
                    i = next(i for i, (a, b) in enumerate(zip(r["results"], ref)) if a != b)
                    return {"verdict": "violation", "stats": stats,
                            "violation": {"class": "lookup_differs_from_reference",
                                          "detail": {"op": i, "call": api["ops"][i], "got": r["results"][i],
                                                     "expected": ref[i]}}}
        flags = 0
        for p in world["platforms"]:
            for e in p["entries"]:
                a = refmodel.parse_argv(W.entry_argv(e))
                if a["I"] and a["isystem"]:
                    flags += 1
        stats["faults"]["flag_order"] = flags
        stats["faults"]["same_name_headers"] = ev["probes"]["ambiguous_lookup"]
        nontrivial = (ev["probes"]["ambiguous_lookup"] > 0 or ev["probes"]["same_spelling_other_ctx"] > 0
                      or ev_n > 0)
        return {"verdict": "ok", "stats": stats, "nontrivial": bool(nontrivial),
                "obs_digest": core.jdigest([obs["attr"], obs["setmap"], sorted(obs["events"])])}
    finally:
        W.cleanup(top)

TIERS = {"quick": {"runs": 4000, "wall_cap": 420}, "thorough": {"runs": 100000, "wall_cap": 3000}}
RULE = ("one run = one generated multi-directory world (same header name in 1..4 directories incl. sub-project layout and a "
        "directory outside the code base; quote / angle / computed includes, the computed ones also selected by a -D flag or through "
        "a re-used macro name; guarded (#ifndef and #if !defined), #pragma once, unguarded, re-entrant and 'defaults' headers, "
        "re-inclusion-sensitive bodies; feature macros tested after the include; continued directives, block comments, odd directive "
        "spellings; -I / -isystem / -include (absolute and bare) in generated order, repeated directories; uniform or per-command flags; "
        "C, C++ and Fortran units) executed (a) plainly, (b) with include-memo eviction at scheduler-chosen look-ups, (c) as an API "
        "history of look-ups against one real Platform; non-trivial = at least one look-up had >=2 candidate directories, or the same "
        "spelling was looked up again in the TU from another directory or in the other form, or an eviction fired; "
        "distinct = distinct sha256(world, schedule)")
ASSUMPTIONS = [
    "reference model (cbisim/refmodel.py) is the specification; its agreement with gcc -E is re-measured by the thorough tier (model_vs_gcc)",
    "worlds are inside the property's domain by construction (no macro redefinition, no missing header, acyclic includes, forced includes absolute)",
    "the kernel's answer to isfile()/realpath() on the private scratch tree is ground truth",
    "sampled, not exhaustive",
]


def accept_shrunk(orig, res):
    # stay inside the property's domain while shrinking: no missing headers
    return (res.get("stats", {}).get("probes", {}).get("missing_after_repair", 0) == 0)


def shrink_schedule(case):
    import copy

    s = case["schedule"]
    if s.get("api"):
        c = copy.deepcopy(case)
        c["schedule"]["api"] = None
        yield c
        ops = s["api"]["ops"]
        for i in range(len(ops)):
            c = copy.deepcopy(case)
            del c["schedule"]["api"]["ops"][i]
            c["schedule"]["api"]["evict"] = []
            yield c
        for i in range(len(s["api"]["include_paths"])):
            c = copy.deepcopy(case)
            del c["schedule"]["api"]["include_paths"][i]
            yield c
    if s.get("evict"):
        c = copy.deepcopy(case)
        c["schedule"]["evict"] = []
        yield c


def extra_checks(tier, verif_seed, out):
    """Model self-test against gcc -E (can only produce a harness error, never a violation)."""
    from .. import gcccheck, runners

    n = 60 if tier == "quick" else 2500
    res = gcccheck.run(n, verif_seed, "c04")
    out(f"[{PID}] model_vs_gcc: {res['tus']} TUs of {res['worlds']} worlds, {res['mismatches']} mismatches")
    if res["mismatches"]:
        raise runners.HarnessError(f"reference model disagrees with gcc: {res['examples'][:2]}")
    return {"model_vs_gcc": {k: res[k] for k in ("worlds", "tus", "mismatches", "skipped")}}, []


def dead_probes(tier, cov):
    need = ["ambiguous_lookup", "same_spelling_other_ctx", "same_spelling_other_result", "once_headers"]
    dead = [k for k in need if cov["probes"].get(k, 0) == 0]
    # (cache_eviction depends on an internal attribute of the SUT; if a refactoring removes it the
    # eviction seam silently does nothing - that must not fail the check, it is only reported)
    dead += [k for k in ("flag_order",) if cov["faults_fired"].get(k, 0) == 0]
    return dead if cov["evaluations"] >= 200 else []
