"""C18 - nothing is dropped silently: unhonoured input is always reported, exactly once per occurrence.

Fault injection proper: the environment fails to provide what the input names (missing headers, absent
entry files, unknown compilers / flags / directives).  Oracle: multiset equality between the recorded
warning history and the events predicted by the reference model, matched on the content the statement
requires (never on wording); conservation between printed totals and issued warnings.
"""
import os
import re

from .. import core, gen, refmodel, runners
from .. import world as W

PID = "C18"


def generate(seed, scratch):
    r = core.rng_for(seed, "gen")
    world, cfg = gen.gen_world(r, "c18")
    rs = core.rng_for(seed, "sched")
    if cfg["faults"].get("unknown_flag") and rs.random() < 0.3:
        world["cbi_config"] = '[compiler.gcc]\noptions = ["-DFROM_CONFIG", "-mfancy-extension"]\n'
    fault_free = rs.random() < 0.25
    repairs = 0
    user_cc = rs.random() < 0.15
    if fault_free:
        # a fault-free world: no injected fault kinds and every include resolvable
        cfg2 = dict(cfg)
        r2 = core.rng_for(seed, "gen-ff")
        cfg2 = gen.draw_cfg(r2, "c18")
        cfg2["faults"] = {}
        world = gen.Gen(r2, cfg2).world()
        cfg = cfg2
        top = scratch.fresh("g")
        try:
            W.materialise(world, top)
            repairs, _ = core.repair_missing(world, top)
        finally:
            W.cleanup(top)
    if user_cc:
        # a compiler the user defined in .cbi/config under a dotted name (vendor wrappers: "vcc.v2"); commands
        # that use it are fully honoured
        world["cbi_config"] = (world.get("cbi_config") or "") + '\n[compiler."vcc.v2"]\noptions = ["-DFROM_VCC"]\n'
        for p in world["platforms"]:
            for e in p["entries"]:
                argv = W.entry_argv(e)
                if argv and argv[0] in ("gcc", "clang") and rs.random() < 0.5:
                    e.pop("command", None)
                    e["arguments"] = [rs.choice(["vcc.v2", "/opt/vendor-1.2/bin/vcc.v2"])] + argv[1:]
    return {"property": PID, "seed": seed, "world": world, "cfg": cfg,
            "schedule": {"fault_free": fault_free, "cli": True, "evict": "all" if rs.random() < 0.2 else None,
                         # terminal verbosity must not change what is counted or logged
                         "cli_flags": rs.choice([[], [], ["-q"], ["-v"], ["-v", "-v"], ["-q", "-q"]]),
                         "cov": rs.random() < 0.2,
                         # every platform selected explicitly with -p, one of them named twice (a wrapper script that
                         # appends to a default list): still one analysis of each
                         "p_repeat": rs.random() < 0.15},
            "repairs": repairs}


def _p_repeat(world, sched):
    names = [p["name"] for p in world["platforms"]]
    if not sched.get("p_repeat") or not names:
        return []
    out = []
    for n in names + [names[0]]:
        out += ["-p", n]
    return out


# ------------------------------------------------------------------------------ record matching
def _has_token(msg, tok):
    # (a byte that was no UTF-8 may be shown as U+FFFD, as an escape, as a surrogate: any short stand-in is accepted)
    body = "".join(".{1,4}?" if ch == "\ufffd" else re.escape(ch) for ch in tok)
    return re.search(r"(?<![\w./+-])" + body + r"(?![\w/+-]|\.\w)", msg) is not None


def _has_file_line(msg, rel, line):
    """The record names the file (any spelling ending in the path relative to the root's parent dirs)
    and the line number."""
    base = rel
    # accept absolute (@TOP@/rel) or any suffix of the path that still ends in the file name with >= its basename
    m = re.search(re.escape(base) + r"\b", msg)
    if not m:
        if not _has_token(msg, os.path.basename(rel)):
            return False
    return re.search(r"(?<!\d)" + str(line) + r"(?!\d)", msg) is not None


def _form_of(msg, sp):
    low = msg.lower()
    sysi = ("system include" in low) or (f"<{sp}>" in msg) or ("angle" in low)
    useri = ("user include" in low) or (f'"{sp}"' in msg) or ("quote" in low)
    if sysi and not useri:
        return "a"
    if useri and not sysi:
        return "q"
    if sysi and useri:
        # both words present: decide by the category word, which the aggregator counts
        if "system include" in low and "user include" not in low:
            return "a"
        if "user include" in low and "system include" not in low:
            return "q"
    return None


def match_records(records, exp, top_token="@TOP@"):
    """records: list of message strings (WARNING level). exp: dict of expected event lists.
    -> (problems list, counts)"""
    left = list(records)
    problems = []

    def take(pred, what):
        for i, m in enumerate(left):
            if pred(m):
                del left[i]
                return True
        problems.append(("missing_warning", what))
        return False

    for (pn, ei, rel, line, sp, form) in exp["includes"]:
        take(lambda m: _has_file_line(m, rel, line) and _has_token(m, sp) and _form_of(m, sp) == form,
             ["include", rel, line, sp, form])
    for (rel, line, name) in exp["directives"]:
        take(lambda m: _has_file_line(m, rel, line) and name in m, ["directive", rel, line, name])
    for path in exp["missing_files"]:
        take(lambda m: path in m, ["missing_entry_file", path])
    for comp in exp["compilers"]:
        take(lambda m: _has_token(m, comp) and "argument" not in m.lower(), ["unknown_compiler", comp])
    for flags in exp["flags"]:
        take(lambda m: all(_has_token(m, f) for f in flags), ["unknown_flags", flags])
    for db in exp["empty_dbs"]:
        # an empty configuration may or may not be reported; tolerated either way
        for i, m in enumerate(left):
            if db in m:
                del left[i]
                break
    for m in left:
        problems.append(("spurious_warning", m[:200]))
    return problems


def expected_events(world, top, model, ev):
    exp = {"includes": list(ev["events"]), "directives": [], "missing_files": [], "compilers": [],
           "flags": [], "empty_dbs": []}
    parsed = set(model.members()) | ev["reached"]
    exp["directives"] = model.unknown_directives(parsed)
    for (pn, ei, fault, path) in ev["db_events"]:
        if fault == "missing_file":
            exp["missing_files"].append(path.replace(top, "@TOP@"))
    for p in world["platforms"]:
        healthy = 0
        for ei, e0 in enumerate(p["entries"]):
            e = W.concrete_entry(e0, top)
            if refmodel.entry_fault(e, model.root):
                continue
            healthy += 1
            a = refmodel.parse_argv(W.entry_argv(e))
            user_defined = a["compiler"] == "vcc.v2" and "vcc.v2" in (world.get("cbi_config") or "")
            if a["compiler"] not in refmodel.BUILTIN_COMPILERS and not user_defined:
                exp["compilers"].append(a["compiler"])
            unknown = [f for f in a["other"]
                       if not (f == "-fopenmp" and a["compiler"] in refmodel.BUILTIN_COMPILERS)]
            if world.get("cbi_config") and "-mfancy-extension" in world["cbi_config"] and a["compiler"] in ("gcc", "g++"):
                unknown = unknown + ["-mfancy-extension"]      # implicit options of the (extended) compiler definition
            if unknown:
                exp["flags"].append(unknown)
        if healthy == 0:
            exp["empty_dbs"].append(os.path.join("@TOP@", p["db"]))
    return exp


def parse_log_warnings(text):
    """cbi.log -> list of WARNING messages (multi-line messages re-joined)."""
    recs = []
    cur = None
    for line in text.split("\n"):
        if line.startswith("warning: "):
            if cur is not None:
                recs.append(cur)
            cur = line[len("warning: "):]
        elif cur is not None and re.match(r"^\s*\d+ \| ", line):
            cur += "\n" + line
        else:
            if cur is not None:
                recs.append(cur)
            cur = None
    if cur is not None:
        recs.append(cur)
    return recs


META_RE = [re.compile(r"(\d+) warnings generated"), re.compile(r"(\d+) user include files"),
           re.compile(r"(\d+) system include files")]


def is_meta(msg):
    return any(r.search(msg) for r in META_RE) or msg.strip().startswith(("These could", "Suggested", "- "))


def execute(case, scratch):
    world, sched = case["world"], case["schedule"]
    top = scratch.fresh("t")
    stats = {"tus": 0, "lookups": 0, "faults": {}, "probes": {}, "cli_runs": 0}
    try:
        W.materialise(world, top)
        model = refmodel.Model(world, top)
        try:
            ev = model.evaluate()
        except refmodel.InvalidWorld as e:
            return {"verdict": "invalid", "detail": str(e), "stats": stats}
        stats["tus"], stats["lookups"] = ev["tus"], ev["lookups"]
        exp = expected_events(world, top, model, ev)
        f = stats["faults"]
        f["missing_include_quote"] = sum(1 for e in exp["includes"] if e[5] == "q")
        f["missing_include_angle"] = sum(1 for e in exp["includes"] if e[5] == "a")
        f["unknown_directive"] = len(exp["directives"])
        f["missing_entry_file"] = len(exp["missing_files"])
        f["unknown_compiler"] = len(exp["compilers"])
        f["unknown_flag"] = len(exp["flags"])
        nev = sum(len(exp[k]) for k in ("includes", "directives", "missing_files", "compilers", "flags"))
        pr = stats["probes"]
        # the same dangling spelling evaluated again in one TU (negative memo entry is hit)
        seen = {}
        rep = 0
        for (pn, ei, rel, line, sp, form) in exp["includes"]:
            k = (pn, ei, sp)
            rep += 1 if k in seen else 0
            seen[k] = 1
        pr["repeated_dangling_spelling_in_tu"] = rep
        pr["fault_free_run"] = 1 if nev == 0 else 0
        if sched.get("fault_free") and nev:
            return {"verdict": "invalid", "detail": "fault-free world has events", "stats": stats}

        res = core.run_api(world, top, evict=sched.get("evict"))
        obs = res["obs"][0]
        if obs["exc"]:
            return {"verdict": "violation", "stats": stats,
                    "violation": {"class": "sut_exception", "detail": obs["exc"]}}
        recs = [m for lv, nm, m in obs["events"] if lv == "WARNING"]
        problems = match_records(recs, exp)
        if problems:
            return {"verdict": "violation", "stats": stats,
                    "violation": {"class": "warnings_differ_from_model." + problems[0][0],
                                  "detail": {"problems": problems[:6], "n_records": len(recs), "n_expected": nev}}}
        # the front end: log file + printed totals
        if sched.get("cli"):
            root = os.path.join(top, world["root"])
            cres = runners.run_fresh("cli_run", {"top": top, "cwd": root, "module": "codebasin",
                                                 "argv": list(sched.get("cli_flags") or []) + _p_repeat(world, sched) + ["-R", "summary", os.path.join(top, W.analysis_path(world))],
                                                 "keep": ["cbi.log"]})
            stats["cli_runs"] = 1
            if cres["rc"] != 0:
                return {"verdict": "violation", "stats": stats,
                        "violation": {"class": "cli_failed", "detail": {"rc": cres["rc"], "out": cres["out"][-500:],
                                                                        "err": cres["err"][-500:]}}}
            log = cres["files"].get("cbi.log", "")
            lrecs = parse_log_warnings(log)
            issued = [m for m in lrecs if not is_meta(m)]
            problems = match_records(issued, exp)
            if problems:
                return {"verdict": "violation", "stats": stats,
                        "violation": {"class": "log_differs_from_model." + problems[0][0],
                                      "detail": {"problems": problems[:6], "n_records": len(issued), "n_expected": nev}}}
            totals = [None, None, None]
            for i, rx in enumerate(META_RE):
                m = rx.search(cres["out"])
                if m:
                    totals[i] = int(m.group(1))
            want = [len(issued) or None, f["missing_include_quote"] or None, f["missing_include_angle"] or None]
            if totals != want:
                return {"verdict": "violation", "stats": stats,
                        "violation": {"class": "printed_totals_differ",
                                      "detail": {"printed": totals, "issued": want}}}
        # the cbi-cov front end analyses one database: its log must carry that platform's warnings
        if sched.get("cov") and world["platforms"]:
            p0 = world["platforms"][0]
            root = os.path.join(top, world["root"])
            w1 = dict(world)
            w1["platforms"] = [p0]
            m1 = refmodel.Model(w1, top)
            ev1 = m1.evaluate()
            exp1 = expected_events(w1, top, m1, ev1)
            cres = runners.run_fresh("cli_run", {"top": top, "cwd": root, "module": "codebasin.coverage",
                                                 "argv": ["compute", "-S", root, "-o", os.path.join(top, "cov.json"),
                                                          os.path.join(top, p0["db"])], "keep": ["cbi.log"]})
            stats["cli_runs"] += 1
            if cres["rc"] != 0:
                return {"verdict": "violation", "stats": stats,
                        "violation": {"class": "cbi_cov_failed", "detail": {"rc": cres["rc"], "err": cres["err"][-500:]}}}
            issued = [m for m in parse_log_warnings(cres["files"].get("cbi.log", "")) if not is_meta(m)]
            problems = match_records(issued, exp1)
            if problems:
                return {"verdict": "violation", "stats": stats,
                        "violation": {"class": "cbi_cov_log_differs_from_model." + problems[0][0],
                                      "detail": {"problems": problems[:6], "n_records": len(issued)}}}
        return {"verdict": "ok", "stats": stats, "nontrivial": nev > 0,
                "obs_digest": core.jdigest([obs["attr"], sorted(obs["events"])])}
    finally:
        W.cleanup(top)


TIERS = {"quick": {"runs": 4000, "wall_cap": 420}, "thorough": {"runs": 120000, "wall_cap": 3000}}
RULE = ("one run = one generated world into which the fault injector placed dangling includes (quote/angle, reached and "
        "unreached branches, repeated spellings, guarded and repeated headers, several TUs/platforms), unknown and exempt "
        "directives, entries for absent files, unknown compilers and flags; executed in-process (captured log records) and "
        "through the codebasin front end (cbi.log + printed totals); a quarter of the runs are fault-free worlds that must "
        "stay silent; non-trivial = at least one injected fault was evaluated; distinct = distinct sha256(world, schedule)")
ASSUMPTIONS = [
    "one warning per *evaluation* of a dangling include (per occurrence in the preprocessing history), one per static unknown directive in a parsed file, one per faulty entry per database load",
    "records are matched on required content (path, line, name, form; absent path; compiler; every unknown flag), never on wording",
    "names are restricted to [A-Za-z0-9_.-/]; a header literally named 'system include.h' is outside the stated domain",
    "built-in compiler names are gcc g++ clang clang++ icx icpx nvcc; -fopenmp is the only modelled extra flag used",
    "sampled, not exhaustive",
]


def dead_probes(tier, cov):
    need = ["missing_include_quote", "missing_include_angle", "unknown_directive", "missing_entry_file",
            "unknown_compiler", "unknown_flag"]
    dead = [k for k in need if cov["faults_fired"].get(k, 0) == 0]
    if cov["probes"].get("fault_free_run", 0) == 0:
        dead.append("fault_free_run")
    if tier == "thorough" and cov["probes"].get("repeated_dangling_spelling_in_tu", 0) == 0:
        dead.append("repeated_dangling_spelling_in_tu")
    return dead if cov["evaluations"] >= 200 else []
