"""Seeded world generator (swarm style): every run draws its own configuration first.

All randomness comes from the random.Random handed in; nothing here iterates over a set or a
directory listing, so the same seed gives the same world in any interpreter.
"""
import copy
import os
import shlex

from .world import TOP, TOPREL

FLAG_MACROS = ["A", "B", "C"]       # tested with defined()/ifdef only; may be empty-valued
NUM_MACROS = ["V", "W"]             # may appear in arithmetic; never empty-valued
SRC_MACROS = ["S0", "S1"]           # defined in sources only, one world-wide value each

ROOT = "proj/src"
IN_DIRS = ["", "d1", "d2", "inc1", "inc2", "d1/inc", "d2/inc"]     # relative to ROOT
EXT_DIR = "proj/ext"                             # outside the code base
BUILD_IN = "proj/src/build"
BUILD_OUT = "proj/bld"
BUILD_GONE = "proj/src/build_gone"              # named by entries but never created (a cleaned build tree)

UNKNOWN_FLAGS = ["-fweird", "-Wall", "-std=c99", "-march=native", "-fPIC", "-pthread", "-Wextra"]
UNKNOWN_COMPILERS = ["mycc", "xlc9", "tool-cc", "/opt/bin/zzcc", "gcc-4.8", "nvcc.real", "/opt/x.y/clang.orig"]
KNOWN_COMPILERS = ["gcc", "g++", "clang", "clang++", "icx", "icpx", "/usr/bin/gcc", "/opt/llvm/bin/clang++", "nvcc"]
BENIGN_PRAGMAS = ["#pragma omp parallel for", "#pragma GCC diagnostic push", "#pragma unroll 4"]
PASS_MACROS = ["__CUDA_ARCH__", "__SYCL_DEVICE_ONLY__", "_OPENMP", "__NVCC__", "SYCL_LANGUAGE_VERSION", "__SPIR__",
               "__NVPTX__"]
UNKNOWN_DIRECTIVES = ["#frobnicate x", "#ident \"v1\"", "#assert machine(x)", "#sccs \"x\"",
                      "#import_x y"]
EXEMPT_DIRECTIVES = ["#line 7", "#warning careful", "#error never", "#"]


RAW_SNIPPETS = [
    # every snippet is valid C for all -D sets the generator draws (checked with gcc) and cleans up after
    # itself; "@" is replaced by a unique number
    # function-like macro reaching an object-like chain that refers back to itself (inner LVL stays unexpanded)
    ["#define LVL (BASE + 2)", "#define BASE GE0", "#define GE0 (LVL >= 0)", "#define GE(v) (LVL >= (v))",
     "#if GE(3) && defined(A)", "int raw@_a;", "#elif GE(4)", "int raw@_b;", "#else", "int raw@_c;", "#endif",
     "#undef GE", "#undef GE0", "#undef BASE", "#undef LVL"],
    # token pasting through a second level (arguments are expanded before pasting)
    # (only while V is undefined: pasting onto a number such as 2U would not be a valid constant)
    ["#define CAT_(a, b) a##b", "#define CAT(a, b) CAT_(a, b)", "#define V1 7", "#ifndef V",
     "#if CAT(V, 1) == 7 && defined(B)", "int raw@_a;", "#else", "int raw@_b;", "#endif", "#else",
     "#if CAT_(V, 1) == 7", "int raw@_c;", "#endif", "#endif", "#undef V1", "#undef CAT", "#undef CAT_"],
    # variadic (forms the SUT supports; a variadic macro whose body ignores __VA_ARGS__ crashes it - C03, not claimed)
    ["#define SUM(...) (0 + __VA_ARGS__)", "#define REST(a, ...) __VA_ARGS__", "#if SUM(V + 0) > 1 || REST(0, W + 0) > 2",
     "int raw@_a;", "#else", "int raw@_b;", "#endif", "#undef SUM", "#undef REST"],
    # a function-like macro whose body names a macro that is (for -DA) defined through that function-like macro:
    # expanding LVL marks the LVL token inside GE's body as not-expandable for the duration of that expansion only
    ["#define GE(v) (LVL >= (v))", "#ifdef A", "#define LVL (GE(0) + 2)", "#if LVL > 2", "int raw@_a;", "#endif", "#else",
     "#define LVL 1", "#if GE(1)", "int raw@_b;", "#endif", "#if GE(2)", "int raw@_c;", "#endif", "#endif",
     "#undef LVL", "#undef GE"],
    # a character constant against an identifier of the same spelling (L is an unknown identifier -> 0)
    ["#ifdef A", "#define TAG 'L'", "#else", "#define TAG L", "#endif", "#if TAG == 'L'", "int raw@_a;", "#else",
     "int raw@_b;", "#endif", "#if '0' == 0 || TAG == 76", "int raw@_c;", "#endif", "#undef TAG"],
    # GNU named variadic parameter
    ["#define SUMN(x, rest...) (x + rest + 0)", "#if SUMN(V + 0, 2) > 2", "int raw@_a;", "#else", "int raw@_b;", "#endif",
     "#if SUMN(W + 0, 1) == 1 || defined(C)", "int raw@_c;", "#endif", "#undef SUMN"],
    # __COUNTER__ is not a macro the SUT knows: an ordinary unknown identifier (0) in every translation unit
    ["#if __COUNTER__ == 0", "int raw@_a;", "#else", "int raw@_b;", "#endif", "#if defined(__COUNTER__)", "int raw@_c;", "#endif"],
    # nested use of a function-like and an object-like macro
    ["#define TWICE(x) ((x) + (x))", "#define BASE (V + 1)", "#if TWICE(BASE) > 4", "int raw@_a;", "#endif",
     "#if TWICE(TWICE(W)) == 8", "int raw@_b;", "#endif", "#undef BASE", "#undef TWICE"],
]

UCC_CONFIG = '''
[compiler.ucc]
options = ["-DUCC_IMPLICIT"]

[[compiler.ucc.parser]]
flags = ["--arch"]
action = "extend_match"
pattern = '(\\d+)'
format = "a$value"
dest = "passes"
default = ["a1"]
%(override)s

[[compiler.ucc.parser]]
flags = ["--feat"]
action = "store_split"
sep = ","
format = "f$value"
dest = "passes"

[[compiler.ucc.parser]]
flags = ["--mx"]
action = "append_const"
dest = "modes"
const = "mx"

[[compiler.ucc.modes]]
name = "mx"
defines = ["A", "W=2"]

[[compiler.ucc.modes]]
name = "my"
defines = ["W=1", "C"]

[[compiler.ucc.passes]]
name = "a1"
defines = ["B"]

[[compiler.ucc.passes]]
name = "a2"
defines = ["C"]
%(inc_a)s

[[compiler.ucc.passes]]
name = "a3"
defines = ["V=2"]
modes = ["mx", "my"]
%(inc_b)s

[[compiler.ucc.passes]]
name = "f1"
defines = ["V=2"]

[[compiler.ucc.passes]]
name = "f2"
defines = ["A", "C"]
modes = ["my", "mx"]

[compiler.ucc2]
alias_of = "ucc"
%(gcc_ext)s
'''


def apply_user_compiler(world, rs):
    """Give the world a ./.cbi/config with a user-defined multi-pass compiler and let some commands use it."""
    from .world import entry_argv

    hs = sorted(p for p in world["files"] if p.endswith((".h", ".hpp")) and "items" in world["files"][p])
    inc_a = inc_b = ""
    if len(hs) >= 2 and rs.random() < 0.6:
        a, b = rs.sample(hs, 2)
        # two passes that each force-include a header of their own
        inc_a = 'include_files = ["%s/%s"]' % (TOP, a)
        inc_b = 'include_files = ["%s/%s"]' % (TOP, b)
    world["cbi_config"] = UCC_CONFIG % {"override": "override = true" if rs.random() < 0.3 else "",
                                        "inc_a": inc_a, "inc_b": inc_b,
                                        # the user file may also EXTEND a packaged compiler
                                        "gcc_ext": '\n[compiler.gcc]\noptions = ["-DC", "-DW=2"]\n' if rs.random() < 0.5 else ""}
    for p in world["platforms"]:
        for e in p["entries"]:
            if rs.random() < 0.6:
                argv = entry_argv(e)
                if not argv or any(a.startswith(("-gencode", "--gpu", "-fsycl")) for a in argv):
                    continue     # flags of another compiler's definition stay with that compiler
                argv[0] = rs.choice(["ucc", "ucc", "ucc2"])
                extra = []
                if rs.random() < 0.4:
                    extra += ["--arch", rs.choice(["2", "3", "2,3", "sm_2"])]
                if rs.random() < 0.25:
                    extra += ["--feat", rs.choice(["1", "2", "1,2"])]
                if rs.random() < 0.25:
                    extra += ["--mx"]
                e.pop("command", None)
                e["arguments"] = [argv[0]] + extra + argv[1:]


def draw_cfg(r, profile):
    """Swarm configuration for one run."""
    c = {
        "profile": profile,
        "n_plat": r.choice([1, 2, 2, 3, 3, 4]),
        "tus_max": r.choice([1, 2, 2, 3]),
        "n_src": r.choice([1, 2, 3, 4]),
        "n_hdr": r.choice([1, 2, 3, 3, 4]),
        "dup_dirs": r.choice([1, 2, 3, 4]),
        "depth": r.choice([1, 2, 3]),
        "budget": r.choice([4, 8, 12, 16]),
        "p_once": r.choice([0.0, 0.3, 0.6]),
        "p_guard": r.choice([0.0, 0.3, 0.6]),
        "p_resens": r.choice([0.0, 0.5, 0.9]),
        "w_forms": r.choice([(6, 3, 1), (4, 4, 2), (8, 1, 1), (3, 6, 1), (5, 5, 0)]),
        "p_isystem": r.choice([0.0, 0.3, 0.6]),
        "p_forced": r.choice([0.0, 0.0, 0.3]),
        "p_include": r.choice([0.15, 0.25, 0.4]),
        "p_define": r.choice([0.05, 0.15, 0.25]),
        "ext_dir": r.random() < 0.4,
        "excludes": False,
        "cbi_config": False,
        "fortran": False,
        "spelling": "simple",
        "faults": {},
        "dir_component": r.random() < 0.3,
        "p_uniform": r.choice([0.0, 0.0, 0.5, 0.9]),
        "p_multiline": r.choice([0.0, 0.3, 0.6]),
        "p_incstyle": r.choice([0.0, 0.2, 0.5]),
        "p_reentrant": r.choice([0.0, 0.0, 0.15, 0.3]),
        "p_defaults_hdr": r.choice([0.0, 0.15, 0.3]),
        "p_decoy_dir": r.choice([0.0, 0.2, 0.4]),
        "p_undef_hdr": r.choice([0.0, 0.15, 0.3]),
        "p_eol": r.choice([0.0, 0.0, 0.15, 0.4]),
        "p_coincide": r.choice([0.0, 0.15, 0.3]),
        "p_cond_once": r.choice([0.0, 0.1, 0.25]),
        "p_variant_twin": r.choice([0.0, 0.2, 0.5]),
        "hdr_name_style": r.choice(["plain", "plain", "odd", "std"]),
        "p_forced_rel": r.choice([0.0, 0.5]),
        "p_prose": r.choice([0.0, 0.0, 0.15]),
        "p_abs_include": r.choice([0.0, 0.0, 0.15]),
        "cpp": r.random() < 0.3,
    }
    if profile in ("c04", "c08", "c18", "c15") and r.random() < 0.2:
        # "project style": what real build systems produce - every command of a platform carries the
        # same flags, a config header is force-included everywhere, sources sit together, headers use
        # #pragma once and provide feature macros that the sources test
        c.update({"project_style": True, "p_uniform": 1.0, "p_forced": r.choice([0.6, 1.0]), "p_once": 0.8,
                  "p_guard": 0.1, "p_sigdef": 0.8, "p_probe": 0.6, "p_define": 0.2, "p_include": 0.4,
                  "n_src": r.choice([2, 3, 4]), "tus_max": r.choice([1, 2]), "n_hdr": r.choice([1, 2, 3])})
    if profile in ("c04", "c08", "c14", "c18") and r.random() < 0.25:
        # mixed-language code base. Every shared header stays inside the code base and is never
        # excluded, so the open finding D6 (out-of-tree header parsed in the language of its first
        # includer) cannot be reached.
        c["fortran"] = True
        c["ext_dir"] = False
    if profile == "c18":
        c["faults"] = {
            "missing_include": r.choice([0.0, 0.1, 0.2, 0.35]),
            "unknown_directive": r.choice([0.0, 0.05, 0.15]),
            "exempt_directive": r.choice([0.0, 0.05]),
            "missing_entry": r.choice([0.0, 0.15, 0.3]),
            "unknown_compiler": r.choice([0.0, 0.2]),
            "unknown_flag": r.choice([0.0, 0.2, 0.4]),
        }
    if profile == "c13":
        c["backslash_commands"] = True
        c["space_dir"] = r.random() < 0.3
        c["spelling"] = "full"
        c["fsroot_dir"] = r.random() < 0.3
        # directory names outside the comfortable alphabet (all legal POSIX names: a CR left behind by a CRLF
        # script, a quote, a hash, a non-ASCII letter)
        c["odd_src_dir"] = r.choice([None, None, None, "gen\r", "o'dir", "a#b", "g\u00e9n", "nl\nx"])
        c["faults"] = {
            "missing_entry": r.choice([0.0, 0.15, 0.3]),
            "non_source": r.choice([0.0, 0.15, 0.3]),
            "empty_command": r.choice([0.0, 0.15]),
        }
        c["n_plat"] = r.choice([1, 1, 2])
        c["tus_max"] = r.choice([2, 3, 4])
    if profile == "c08":
        c["cbi_config"] = r.random() < 0.35
        c["n_plat"] = r.choice([1, 2, 3, 4])
        c["tus_max"] = r.choice([2, 3, 4])
        c["n_src"] = r.choice([2, 3, 4])
        c["p_uniform"] = r.choice([0.0, 0.5, 0.9, 1.0])
        c["p_define"] = r.choice([0.1, 0.2, 0.3])
        c["p_include"] = r.choice([0.25, 0.4])
        c["p_once"] = r.choice([0.0, 0.3, 0.6, 0.9])
        c["p_sigdef"] = r.choice([0.0, 0.5, 0.8])
        c["p_probe"] = r.choice([0.3, 0.6])
        c["max_entries_per_platform"] = r.choice([2, 3, 4])
        # (ignored by the SUT, honoured by a compiler: only for the engine whose oracle is CBI-vs-CBI)
        c["p_pushpop"] = r.choice([0.0, 0.0, 0.2])
    if profile == "c14":
        c["n_plat"] = r.choice([2, 3, 4, 5])
        c["excludes"] = r.random() < 0.2
        c["cbi_config"] = r.random() < 0.25
    if profile in ("c08", "c14", "c15"):
        # macro-rich verbatim snippets: only for engines whose oracle is CBI-vs-CBI
        c["p_raw"] = r.choice([0.0, 0.04, 0.08])
        c["builtin_pass_flags"] = r.random() < 0.4
        c["shared_db"] = r.random() < 0.15
    if profile == "c15":
        c["n_plat"] = r.choice([1, 2, 3])
        c["decorate"] = True
        c["spelling"] = r.choice(["simple", "full"])
        c["p_dirlink"] = r.choice([0.2, 0.5, 0.8])
        c["p_abs_include"] = 0.0      # (file bytes must not depend on where the world is materialised: two tops are compared)
        c["p_xlang_link"] = r.choice([0.0, 0.3, 0.6])
        c["p_forced_beside"] = r.choice([0.0, 0.15, 0.3])
        c["p_filelink"] = r.choice([0.0, 0.2, 0.5])
        c["p_xfilelink"] = r.choice([0.0, 0.15, 0.4])
        c["p_alias"] = r.choice([0.4, 0.7, 1.0])
        c["p_once"] = r.choice([0.3, 0.6])
        c["p_resens"] = r.choice([0.5, 0.9])
        c["dot_includes"] = r.choice([0.0, 0.3])
        c["excludes"] = r.random() < 0.2
        c["p_include"] = r.choice([0.25, 0.4, 0.5])
        c["n_hdr"] = r.choice([1, 2, 2, 3])
        c["p_guard"] = r.choice([0.0, 0.2])
    return c


class Gen:
    def __init__(self, r, cfg):
        self.r = r
        self.cfg = cfg
        self.uid = 0
        # world-wide values of the source-defined macros: numbers, chains through -D macros, and
        # (mutually) self-referential definitions (legal C: the inner name is not expanded again)
        self.src_vals = {m: r.choice(["0", "1", "2", "1", "2", "V", "W", m, SRC_MACROS[1 - i]])
                         for i, m in enumerate(SRC_MACROS)}
        self.missing_pool = ["missing_0.h", "missing_1.h", "gone/missing_2.h"]
        self.extra_files = {}

    # ------------------------------------------------------------------ expressions and items
    def expr(self, depth=0):
        r = self.r
        if depth > 1 or r.random() < 0.55:
            k = r.random()
            if k < 0.30:
                return ["def", r.choice(FLAG_MACROS + NUM_MACROS + SRC_MACROS)]
            if k < 0.42:
                return ["ndef", r.choice(FLAG_MACROS + NUM_MACROS + SRC_MACROS)]
            if k < 0.50:
                return ["defsp", r.choice(FLAG_MACROS + NUM_MACROS)]
            m = r.choice(NUM_MACROS + SRC_MACROS)
            if k < 0.70:
                return ["gt", m, r.randint(0, 2)]
            if k < 0.88:
                return ["eq", m, r.randint(0, 2)]
            return ["val", m]
        k = r.random()
        if k < 0.45:
            return ["and", self.expr(depth + 1), self.expr(depth + 1)]
        if k < 0.9:
            return ["or", self.expr(depth + 1), self.expr(depth + 1)]
        return ["not", self.expr(depth + 1)]

    def define_items(self):
        """A constructively safe definition/undefinition (never a conflicting redefinition)."""
        r = self.r
        k = r.random()
        if k < 0.3:
            m = r.choice(SRC_MACROS)
            if r.random() < self.cfg.get("p_multiline", 0.0):
                return [["define", m, self.src_vals[m], "ml"]]
            return [["define", m, self.src_vals[m]]]
        if k < 0.5:
            return [["undef", r.choice(FLAG_MACROS + NUM_MACROS + SRC_MACROS)]]
        m = r.choice(FLAG_MACROS + NUM_MACROS)
        v = str(r.choice([0, 1, 2])) if m in NUM_MACROS else r.choice([None, "0", "1", "2"])
        if k < 0.75:
            return [["cond", [["ifndef", m, [["define", m, v]]]]]]
        return [["undef", m], ["define", m, v]]

    def include_item(self, headers):
        r = self.r
        fm = self.cfg["faults"].get("missing_include", 0.0)
        if fm and r.random() < fm:
            form = r.choice(["q", "q", "a"])
            pool = self.missing_pool + ([r.choice(headers)["missing_alias"]] if headers else [])
            return [["include", form, r.choice(pool)]]
        if not headers:
            return []
        h = r.choice(headers)
        wq, wa, wm = self.cfg["w_forms"]
        form = r.choices(["q", "a", "m"], weights=[wq, wa, wm])[0]
        sp = h["name"]
        if self.cfg["dir_component"] and h.get("dirsp") and r.random() < 0.4:
            sp = r.choice(h["dirsp"])
        if form == "q" and r.random() < self.cfg.get("p_abs_include", 0.0):
            # the absolute spelling generated sources use (CMake unity builds, precompiled-header stubs)
            return [["include", form, TOP + "/" + r.choice(h["paths"])]]
        if form == "m":
            val = f'"{sp}"' if r.random() < 0.6 else f"<{sp}>"
            if "/" in sp and r.random() < 0.3:
                # the replacement list itself contains a macro: <DIRMACRO/rest> must be rescanned
                first, rest = sp.split("/", 1)
                self.uid += 1
                dm = f"DIRM_{self.uid}"
                return [["define", dm, first], ["undef", "HDR"], ["define", "HDR", f"<{dm}/{rest}>"], ["include", "m", "HDR"]]
            if r.random() < 0.35:
                # platform-specific header selection: which header (and which form) depends on a -D flag
                other = r.choice(headers)["name"] if headers else sp
                if self.cfg["faults"].get("missing_include") and r.random() < 0.5:
                    other = r.choice(self.missing_pool)
                val2 = f'"{other}"' if r.random() < 0.5 else f"<{other}>"
                return [["undef", "HDR"],
                        ["cond", [["ifdef", r.choice(FLAG_MACROS), [["define", "HDR", val]]],
                                  ["else", None, [["define", "HDR", val2]]]]],
                        ["include", "m", "HDR"]]
            if r.random() < 0.5:
                # one macro name re-used for several computed includes, redefined in between
                return [["undef", "HDR"], ["define", "HDR", val], ["include", "m", "HDR"]]
            self.uid += 1
            mname = f"INC_{self.uid}"
            return [["define", mname, val], ["include", "m", mname]]
        if r.random() < self.cfg.get("p_incstyle", 0.0):
            # legal spellings of the directive itself: blanks after '#', leading blanks, trailing comment
            return [["include", form, sp, r.choice(["sp", "tab", "lead", "cmt", "lcmt"])]]
        return [["include", form, sp]]

    def items(self, depth, headers, budget):
        r = self.r
        out = []
        n = r.randint(1, 4)
        for _ in range(n):
            if budget[0] <= 0:
                break
            budget[0] -= 1
            k = r.random()
            pi, pd = self.cfg["p_include"], self.cfg["p_define"]
            fu = self.cfg["faults"].get("unknown_directive", 0.0)
            fe = self.cfg["faults"].get("exempt_directive", 0.0)
            if fu and r.random() < fu:
                out.append(["directive", r.choice(UNKNOWN_DIRECTIVES)])
            elif fe and r.random() < fe:
                out.append(["directive", r.choice(EXEMPT_DIRECTIVES[:2] + EXEMPT_DIRECTIVES[3:])])
            elif k < 0.30:
                out.append(["code", r.randint(1, 2)])
                if r.random() < self.cfg.get("p_pushpop", 0.0):
                    # save/restore pragmas as real code uses them around third-party headers - and as it misuses
                    # them (a push never popped, a pop without a push)
                    m = r.choice(FLAG_MACROS)
                    out.append(["directive", '#pragma %s("%s")' % (r.choice(["push_macro", "pop_macro"]), m)])
                    if r.random() < 0.5:
                        out.append(["cond", [["ifdef", m, [["code", 1]]], ["else", None, [["code", 1]]]]])
                if r.random() < self.cfg.get("p_prose", 0.0):
                    # a block disabled with #if 0 that holds free text, not C
                    out.append(["cond", [["if", ["val", 0], [["code", 1, r.randint(0, 4)]]]]])
            elif k < 0.30 + pd:
                out += self.define_items()
            elif k < 0.30 + pd + pi:
                inc = self.include_item(headers)
                out += inc
                if inc and r.random() < self.cfg.get("p_probe", 0.3):
                    # make the macro effect of the inclusion observable in the includer
                    m = r.choice(SRC_MACROS + SRC_MACROS + FLAG_MACROS + NUM_MACROS)
                    out.append(["cond", [["ifdef", m, [["code", 1]]], ["else", None, [["code", 1]]]]])
            elif k < 0.30 + pd + pi + 0.06:
                out.append(r.choice([["blank"], ["blank", "ff"], ["blank", "vt"], ["comment"], ["bcomment", r.randint(0, 2)],
                                     ["directive", r.choice(BENIGN_PRAGMAS)]]))
            elif self.cfg.get("p_raw") and k < 0.30 + pd + pi + 0.09 + self.cfg["p_raw"]:
                self.uid += 1
                out.append(["raw", [l.replace("@", str(self.uid)) for l in r.choice(RAW_SNIPPETS)]])
            elif k < 0.30 + pd + pi + 0.09:
                # code that depends on a macro only a compiler pass / mode defines
                if r.random() < 0.4:
                    out.append(["cond", [["if", r.choice([["gt", "__CUDA_ARCH__", 750], ["eq", "__CUDA_ARCH__", 700],
                                                          ["and", ["def", "__CUDA_ARCH__"], ["not", ["gt", "__CUDA_ARCH__", 799]]]]),
                                          [["code", 1]]], ["else", None, [["code", 1]]]]])
                else:
                    out.append(["cond", [["ifdef", r.choice(PASS_MACROS), [["code", 1]]], ["else", None, [["code", 1]]]]])
            elif depth < self.cfg["depth"]:
                chain = []
                kind = r.choice(["if", "if", "ifdef", "ifndef"])
                if kind == "if":
                    chain.append(["if", self.expr(), self.items(depth + 1, headers, budget)])
                else:
                    chain.append([kind, r.choice(FLAG_MACROS + NUM_MACROS + SRC_MACROS),
                                  self.items(depth + 1, headers, budget)])
                for _ in range(r.choice([0, 0, 1, 2])):
                    chain.append(["elif", self.expr(), self.items(depth + 1, headers, budget)])
                if r.random() < 0.5:
                    chain.append(["else", None, self.items(depth + 1, headers, budget)])
                out.append(["cond", chain])
            else:
                out.append(["code", 1])
        return out

    # ------------------------------------------------------------------------------ the world
    def world(self):
        r, cfg = self.r, self.cfg
        files = {}
        self._files = files
        dirs = [ROOT] + [os.path.join(ROOT, d) for d in IN_DIRS if d] + [BUILD_IN, BUILD_OUT,
                                                                          "proj/db"]
        hdr_dirs = [os.path.join(ROOT, d) if d else ROOT for d in IN_DIRS]
        if cfg.get("space_dir"):
            hdr_dirs.append(os.path.join(ROOT, "inc sp"))
        if cfg["ext_dir"]:
            dirs.append(EXT_DIR)
            hdr_dirs.append(EXT_DIR)
        # header names and their placements
        names = []
        for i in range(cfg["n_hdr"]):
            ext = ".hpp" if (cfg["cpp"] and r.random() < 0.3) else ".h"
            stem = f"h{i}"
            if cfg.get("hdr_name_style") == "std" and not cfg.get("fortran"):
                # a project's own header that carries the name of a standard one (compat layers, libc, embedded)
                stem, ext = r.choice([("string", ".h"), ("stdio", ".h"), ("math", ".h"), ("vector", ""), ("cstdio", ""),
                                      ("memory", ""), ("stdint", ".h")])
                if any(n == stem + ext for n in names):
                    stem, ext = f"h{i}", ".h"
            if cfg.get("hdr_name_style") == "odd":
                stem = r.choice([f"h{i}", f"h-{i}", f"h{i}_v2", f"h{i}.inc", f"{i}h"])
                if r.random() < 0.3 and not cfg.get("fortran"):
                    # include targets that are not source files by name: X-macro tables, extensionless headers.
                    # (Never in mixed-language worlds: such a file is read in the language of whichever unit
                    # includes it first - the open finding D6 - and the reference model only reads C.)
                    ext = r.choice([".def", "", ".tpp"])
            names.append(f"{stem}{ext}")
        hdrs = []   # dict(name, idx, paths, dirsp, missing_alias)
        for i, nm in enumerate(names):
            k = r.randint(1, min(cfg["dup_dirs"], len(hdr_dirs)))
            places = sorted(r.sample(hdr_dirs, k))
            dirsp = []
            for pl in places:
                rel = os.path.relpath(pl, ROOT)
                if rel != "." and not rel.startswith(".."):
                    dirsp.append(f"{rel}/{nm}")
                    if "/" in rel:
                        dirsp.append(f"{rel.split('/')[-1]}/{nm}")     # e.g. "inc/h0.h": resolvable from d1 or via -I d1
            hdrs.append({"name": nm, "idx": i, "paths": [os.path.join(pl, nm) for pl in places],
                         "dirsp": dirsp, "missing_alias": f"nowhere/{nm}"})
        # bodies, highest index first so that includes only point "forward" (acyclic)
        for h in reversed(hdrs):
            later = [x for x in hdrs if x["idx"] > h["idx"]]
            for path in h["paths"]:
                tag = "".join(ch if ch.isalnum() else "_" for ch in path).upper()
                body = [["code", 1]] + self.items(0, later, [r.randint(1, cfg["budget"])])
                if cfg.get("fortran") and r.random() < 0.7:
                    # a C comment at the top of a header shared with Fortran units (a licence banner):
                    # what it is depends on the language the header is read in
                    body.insert(0, r.choice([["comment"], ["bcomment", 1]]))
                if r.random() < cfg.get("p_sigdef", 0.0):
                    # a header that provides a feature macro other files test after including it
                    body.insert(1, self.define_items()[0] if r.random() < 0.5 else
                                ["define", r.choice(SRC_MACROS), None])
                    m = body[1]
                    if m[0] == "define" and m[1] in SRC_MACROS:
                        m[2] = self.src_vals[m[1]]
                if r.random() < cfg["p_resens"]:
                    seen = f"SEEN_{tag}"
                    body = body + [["cond", [["ifdef", seen, [["code", 1]]]]],
                                   ["define", seen, None]]
                k = r.random()
                if r.random() < cfg.get("p_undef_hdr", 0.0):
                    # a header that only takes a macro away (no #define, #include or #pragma in it)
                    ux = r.choice(FLAG_MACROS + NUM_MACROS)
                    items = [["code", 1], ["undef", ux]]
                    if r.random() < 0.5:
                        items.append(["cond", [["ifdef", r.choice(FLAG_MACROS), [["code", 1]]], ["else", None, [["code", 1]]]]])
                elif r.random() < cfg.get("p_defaults_hdr", 0.0):
                    # a "defaults" header: nothing but several top-level #ifndef X / #define X v / #endif blocks
                    ms = r.sample(FLAG_MACROS + NUM_MACROS, r.randint(2, 3))
                    items = []
                    for mm in ms:
                        vv = str(r.choice([0, 1, 2])) if mm in NUM_MACROS else r.choice([None, "1", "2"])
                        items.append(["cond", [[r.choice(["ifndef", "ifndef", "if"]), mm if True else None,
                                                [["define", mm, vv]]]]])
                        if items[-1][1][0][0] == "if":
                            items[-1][1][0][1] = ["ndef", mm]
                elif r.random() < cfg.get("p_reentrant", 0.0):
                    # a header that includes itself once more and takes the other branch the second time
                    # (multi-pass / X-macro style); the cycle ends through macro state
                    ps = f"PASS_{tag}"
                    items = [["cond", [["ifndef", ps, [["define", ps, None]] + body + [["include", "q", h["name"]], ["code", 1]]],
                                       ["else", None, [["code", 1]] + self.items(1, later, [2])]]]]
                elif r.random() < cfg.get("p_cond_once", 0.0):
                    # the MSVC/Boost idiom: #pragma once only under a condition (inactive for some platforms)
                    items = [["cond", [[r.choice(["ifdef", "ifndef"]), r.choice(FLAG_MACROS + NUM_MACROS), [["once"]]]]]] + body
                elif k < cfg["p_once"]:
                    items = [["once"]] + body
                elif k < cfg["p_once"] + cfg["p_guard"]:
                    g = f"G_{tag}"
                    if r.random() < 0.3:
                        items = [["cond", [["if", ["ndef", g], [["define", g, None]] + body]]]]
                    else:
                        items = [["cond", [["ifndef", g, [["define", g, None]] + body]]]]
                    if r.random() < 0.25:
                        # a guard whose #else branch does something on re-inclusion
                        items[0][1].append(["else", None, [["code", 1]] + self.items(1, later, [2])])
                else:
                    items = body
                files[path] = {"lang": "c", "items": items}
        # sources
        srcs = []
        for i in range(cfg["n_src"]):
            d = r.choice(["", "d1", "d2"] + ([cfg["odd_src_dir"]] if cfg.get("odd_src_dir") else []))
            if cfg.get("project_style") and i:
                d = os.path.relpath(os.path.dirname(srcs[0]), ROOT)
                d = "" if d == "." else d
            ext = ".cpp" if (cfg["cpp"] and r.random() < 0.4) else ".c"
            lang = "c"
            if cfg.get("fortran") and r.random() < 0.4:
                # free-form Fortran translation units sharing the (C) headers of the code base
                ext, lang = r.choice([".F90", ".f90"]), "f90"
            p = os.path.join(ROOT, d, f"s{i}{ext}") if d else os.path.join(ROOT, f"s{i}{ext}")
            files[p] = {"lang": lang, "items": self.items(0, hdrs, [r.randint(3, cfg["budget"] + 2)])}
            srcs.append(p)
        if cfg["ext_dir"] and r.random() < 0.3:
            p = os.path.join(EXT_DIR, "xs0.c")
            files[p] = {"lang": "c", "items": self.items(0, hdrs, [r.randint(2, cfg["budget"])])}
            srcs.append(p)
        if cfg["profile"] in ("c14", "c15") and r.random() < 0.25:
            # two files whose names differ only in letter case
            files[os.path.join(ROOT, "d1", "twin.c")] = {"lang": "c", "items": [["code", r.randint(1, 3)]]}
            files[os.path.join(ROOT, "d1", "TWIN.c")] = {"lang": "c", "items": [["code", r.randint(1, 3)], ["blank"], ["code", 1]]}
            files[os.path.join(ROOT, "d1", "Twin.c")] = {"lang": "c", "items": [["code", 1]]}
            # ... and two headers that differ only in case, plus an include of a third spelling that does not exist
            files[os.path.join(ROOT, "d1", "Cfgx.h")] = {"lang": "c", "items": [["code", 1], ["define", "S0", self.src_vals["S0"]]]}
            files[os.path.join(ROOT, "d1", "CFGX.h")] = {"lang": "c", "items": [["code", 2], ["undef", "A"]]}
            tw = os.path.join(ROOT, "d1", "twinuser.c")
            files[tw] = {"lang": "c", "items": [["include", "q", "cfgx.h"],
                                                ["cond", [["ifdef", "S0", [["code", 1]]], ["else", None, [["code", 1]]]]]]}
            srcs.append(tw)
        coin = None
        if hdrs and r.random() < cfg.get("p_coincide", 0.0):
            # two quote includes whose candidates beside the includer coincide ("inc/h" from d1, "h" from d1/inc),
            # that candidate being absent, while one -I directory has both spellings as different files
            h = r.choice(hdrs)
            nm = h["name"]
            local = os.path.join(ROOT, "d1", "inc", nm)
            if local not in files and nm.endswith((".h", ".hpp")):
                for pth in (os.path.join(ROOT, "d2", "inc", nm), os.path.join(ROOT, "d2", nm)):
                    if pth not in files:
                        files[pth] = {"lang": "c", "items": [["code", r.randint(1, 2)], ["define", r.choice(SRC_MACROS), None]]}
                        files[pth]["items"][1][2] = self.src_vals[files[pth]["items"][1][1]]
                files[os.path.join(ROOT, "d1", "inc", "helper_c.h")] = {"lang": "c", "items": [["code", 1], ["include", "q", nm]]}
                two = [["include", "q", "inc/" + nm], ["include", "q", "inc/helper_c.h"]]
                r.shuffle(two)
                coin = os.path.join(ROOT, "d1", "coin.c")
                files[coin] = {"lang": "c", "items": two + [["cond", [["ifdef", "S0", [["code", 1]]], ["else", None, [["code", 1]]]]]]}
        # a file nobody compiles or includes
        if r.random() < 0.3:
            files[os.path.join(ROOT, "d2", "unused.c")] = {"lang": "c", "items": [["code", 2]] + self.items(0, [], [3])}
        if hdrs and r.random() < cfg.get("p_decoy_dir", 0.0):
            # a DIRECTORY that carries the name of a header, in a search directory that does not hold that header
            h = r.choice(hdrs)
            places = [d for d in hdr_dirs if os.path.join(d, h["name"]) not in files]
            if places:
                dd = os.path.join(r.choice(places), h["name"])
                dirs.append(dd)
                files[os.path.join(dd, "inner.h")] = {"lang": "c", "items": [["code", 1]]}
        links = []
        if cfg.get("decorate"):
            links, self.alias = self.make_links(files)
            if any(l["kind"] in ("outside", "outside_dir") for l in links) and EXT_DIR not in dirs:
                dirs.append(EXT_DIR)
        fb = None
        if cfg.get("decorate") and r.random() < cfg.get("p_forced_beside", 0.0):
            # two sub-projects that each keep their own board.h beside their sources and force-include it by bare
            # name; one source of the second is reached through a file link that lives in the first
            files[os.path.join(ROOT, "d1", "board.h")] = {"lang": "c", "items": [["code", 1], ["define", "S0", self.src_vals["S0"]]]}
            files[os.path.join(ROOT, "d2", "board.h")] = {"lang": "c", "items": [["code", 2], ["undef", "A"], ["define", "S1", self.src_vals["S1"]]]}
            body = [["cond", [["ifdef", "S0", [["code", 1]]], ["else", None, [["code", 2]]]]],
                    ["cond", [["ifdef", "A", [["code", 1]]]]], ["code", 1]]
            files[os.path.join(ROOT, "d1", "fb_a.c")] = {"lang": "c", "items": copy.deepcopy(body)}
            files[os.path.join(ROOT, "d2", "fb_b.c")] = {"lang": "c", "items": copy.deepcopy(body)}
            lname = r.choice(["aaa_fb_b.c", "zz_fb_b.c"])
            links.append({"path": os.path.join(ROOT, "d1", lname), "target": "../d2/fb_b.c", "kind": "xfile"})
            fb = []
            for nm in ("fb_a.c", lname):
                f = os.path.join(TOP, ROOT, "d1", nm)
                fb.append({"file": f, "arguments": ["gcc", "-DA", "-include", "board.h", "-c", f]})
            r.shuffle(fb)
        mix = None
        if cfg["profile"] == "c08" and cfg.get("fortran") and r.random() < 0.3:
            # a C unit whose force-included configuration header pulls in a table file that is no source file by
            # name (.def; read on demand, only ever from C), next to a Fortran unit. The table hides a #define in
            # a C comment: what it means depends on the language it is read in.
            files[os.path.join(ROOT, "fmix.F90")] = {"lang": "f90", "items": [["code", 2]]}
            files[os.path.join(ROOT, "cmix.c")] = {"lang": "c", "items": [
                ["code", 1], ["cond", [["ifdef", "S0", [["code", 1]]], ["else", None, [["code", 2]]]]]]}
            files[os.path.join(ROOT, "cfgforce.h")] = {"lang": "c", "items": [["code", 1], ["include", "q", "tbl.def"]]}
            files[os.path.join(ROOT, "tbl.def")] = {"lang": "c", "text": "/* generated table\n#define S0 1\n*/\nint tbl_row;\n"}
            ff, cf = os.path.join(TOP, ROOT, "fmix.F90"), os.path.join(TOP, ROOT, "cmix.c")
            mix = [{"file": ff, "arguments": ["gcc", "-c", ff]},
                   {"file": cf, "arguments": ["gcc", "-include", os.path.join(TOP, ROOT, "cfgforce.h"), "-c", cf]}]
            r.shuffle(mix)
        # platforms
        plats = []
        inc_pool = [os.path.join(ROOT, d) for d in ["d1", "d2", "inc1", "inc2", "d1/inc", "d2/inc"]]
        if cfg.get("space_dir"):
            inc_pool.append(os.path.join(ROOT, "inc sp"))
        if cfg["ext_dir"]:
            inc_pool.append(EXT_DIR)
        for pi in range(cfg["n_plat"]):
            # (no dots: ensure_ext() rejects the dendrogram and database file names they would lead to)
            name = r.choice([f"p{pi}", f"p{pi}", f"p{pi}", f"plat{pi}", f"gpu-{pi}", f"X_{pi}"])
            ents = []
            self._plat_base = None
            for s in srcs:
                for _ in range(r.choice([0, 1, 1, 2][: cfg["tus_max"] + 1])):
                    ents.append(self.entry(s, inc_pool, hdrs))
            if ents and r.random() < cfg.get("p_variant_twin", 0.0):
                # the same command once more with exactly ONE thing different
                self.variant_twin(ents)
            if cfg.get("max_entries_per_platform"):
                r.shuffle(ents)
                ents = ents[: cfg["max_entries_per_platform"]]
            if not ents and r.random() < 0.8:
                ents.append(self.entry(r.choice(srcs), inc_pool, hdrs))
            ents = self.add_db_faults(ents)
            if mix:
                k = len(mix) if pi == cfg["n_plat"] - 1 else r.choice([0, 1, 2, 2])
                at = r.randint(0, len(ents))
                ents[at:at] = mix[:k]       # (adjacent when on one platform)
                mix = mix[k:]
            if fb:
                # (on one platform, or spread over two)
                k = len(fb) if pi == cfg["n_plat"] - 1 else r.choice([0, 1, 2, 2])
                for e in fb[:k]:
                    ents.insert(r.randint(0, len(ents)), e)
                fb = fb[k:]
            if coin and (pi == 0 or r.random() < 0.5):
                ents.append(self.spell_entry({"src": coin, "defs": [], "incs": [["I", os.path.join(ROOT, "d2")]], "forced": [],
                                              "compiler": "gcc", "extra": []}, alias=getattr(self, "alias", None)))
            if cfg.get("shared_db") and plats and r.random() < 0.5:
                # two platforms that name one and the same database file
                plats.append({"name": name, "db": plats[-1]["db"], "entries": [dict(e) for e in plats[-1]["entries"]]})
                continue
            plats.append({"name": name, "db": f"proj/db/{name}.json", "entries": ents})
        files.update(self.extra_files)
        for pth in sorted(files):
            k = r.random()
            if "items" in files[pth] and k < cfg.get("p_eol", 0.0):
                files[pth]["eol"] = "crlf" if k < cfg["p_eol"] * 0.6 else "nofinal"
        w = {"root": ROOT, "files": files, "dirs": dirs, "links": links, "platforms": plats,
             "excludes": [], "cbi_config": None}
        from .world import render_file
        for pth in sorted(files):
            if files[pth].get("eol") == "nofinal":
                lines = render_file(w, pth)
                if len(lines) >= 2 and lines[-2][1].endswith("\\"):
                    del files[pth]["eol"]     # gcc warns about a continued line that ends the file
        if cfg["excludes"] and not cfg.get("fortran"):
            w["excludes"] = r.choice([["d2/"], ["*.hpp"], ["inc2/"], ["d2/*", "!d2/s*"], ["*.h", "!h0.h", "inc1/"],
                                      ["d1/*", "!d1/inc", "!d1/*.c"]])
        if cfg["profile"] == "c13":
            self.twin_entries(w)
        return w

    # ----------------------------------------------------------------------------- entries
    def sem_entry(self, src, inc_pool, hdrs):
        r, cfg = self.r, self.cfg
        # real compilation databases mostly repeat one flag set per platform
        base = getattr(self, "_plat_base", None)
        if base is not None and r.random() < cfg.get("p_uniform", 0.0):
            sem = dict(base)
            sem["src"] = src
            if r.random() < 0.3:
                # the same set of -D options in another order
                sem["defs"] = list(base["defs"])
                r.shuffle(sem["defs"])
            # a forced include given by bare name must not exist beside *this* main file either (CBI looks
            # there first, a compiler looks in its working directory first)
            here = os.path.dirname(src)
            sem["forced"] = [f for f in base["forced"]
                             if f.startswith(TOP) or os.path.normpath(os.path.join(here, f)) not in self._files]
            okh = [x for x in hdrs if x["name"].endswith((".h", ".hpp"))]
            if okh and r.random() < 0.3:
                # build variants: the same flags, another forced configuration header
                h = r.choice(okh)
                sem["forced"] = [os.path.join(TOP, r.choice(h["paths"]))] if r.random() < 0.8 else []
            return sem
        sem = self._fresh_sem(src, inc_pool, hdrs)
        if base is None:
            self._plat_base = sem
        return sem

    def _fresh_sem(self, src, inc_pool, hdrs):
        r, cfg = self.r, self.cfg
        defs = []
        for m in FLAG_MACROS:
            k = r.random()
            if k < 0.25:
                defs.append(m)
            elif k < 0.32:
                defs.append(f"{m}=")
            elif k < 0.40:
                defs.append(f"{m}=2")
        for m in NUM_MACROS:
            k = r.random()
            if k < 0.2:
                defs.append(m)
            elif k < 0.35:
                defs.append(f"{m}=" + r.choice(["0", "0", "0x0", "00", "0U"]))
            elif k < 0.5:
                # the same number in the spellings C allows
                defs.append(f"{m}=" + r.choice(["2", "2", "0x2", "02", "2U", "2L", "2UL"]))
        if cfg["profile"] in ("c08", "c14") and r.random() < 0.12:
            # one macro given twice with different values, in either order (model-free engines only: a compiler
            # warns about it and takes the last one, the SUT documents that the first one wins)
            two = [f"W={r.choice([0, 1])}", "W=2"]
            r.shuffle(two)
            defs = [d for d in defs if not d.startswith("W")] + two
        incs = []
        for d in r.sample(inc_pool, r.randint(0, min(3, len(inc_pool)))):
            incs.append(["isystem" if r.random() < cfg["p_isystem"] else "I", d])
        if incs and r.random() < 0.15:
            # a build system that repeats a directory (same kind, so that a compiler simply ignores the repeat)
            incs.append(list(r.choice(incs)))
        forced = []
        for _ in range(2 if (hdrs and r.random() < cfg["p_forced"]) else 0):
            if forced and r.random() < 0.6:
                break
            # (gcc includes a header named by two -include options only once; never repeat a name)
            # (a forced include gets no language from an includer: the SUT can only parse it if its own name has
            # a recognised extension - a limitation outside the claimed properties, so such names are not forced)
            cand = [x for x in hdrs if all(os.path.basename(f) != x["name"] for f in forced)
                    and x["name"].endswith((".h", ".hpp"))]
            if not cand:
                break
            h = r.choice(cand)
            # absolute, so that the compiler's cwd-first rule for -include is not in play ...
            forced.append(os.path.join(TOP, r.choice(h["paths"])))
            # ... or by bare name when only an include directory of this entry can provide it (the name
            # exists neither in the root, nor in a build directory, nor beside the main file)
            via = [d for _, d in incs if os.path.join(d, h["name"]) in h["paths"]]
            beside = {os.path.dirname(p) for p in h["paths"]}
            cwds = {ROOT, os.path.join(ROOT, "d1"), os.path.join(ROOT, "d2"), os.path.dirname(src)}
            # (files of that name added outside the header table count too: the coincidence scenario)
            here_too = any(os.path.join(c, h["name"]) in self._files for c in cwds)
            if via and r.random() < cfg.get("p_forced_rel", 0.0) and not (cwds & beside) and not here_too:
                # (also with the explicit "./" some build systems write: still a name for the quote chain)
                forced[-1] = r.choice(["", "", "./"]) + h["name"]
        comp = r.choice(KNOWN_COMPILERS)
        extra = []
        f = cfg["faults"]
        if f.get("unknown_compiler") and r.random() < f["unknown_compiler"]:
            comp = r.choice(UNKNOWN_COMPILERS)
        if f.get("unknown_flag") and r.random() < f["unknown_flag"]:
            extra = r.sample(UNKNOWN_FLAGS, r.randint(1, 2))
        if r.random() < 0.15:
            extra = extra + ["-fopenmp"]     # a known flag for the built-in compilers, an unknown one for others
        if extra and r.random() < 0.15:
            extra = extra + [extra[0]]       # the same flag twice
        if cfg["profile"] != "c18" and r.random() < 0.12:
            # what CMake and auto-dependency Makefiles add to every compile command
            extra = extra + r.choice([["-MD"], ["-MMD"], [["-MD"], ["-MT", "out.o"], ["-MF", "out.o.d"]]])
        if cfg.get("builtin_pass_flags") and r.random() < 0.5:
            # pass/mode selecting flags of the built-in compiler definitions (model-free engines only)
            base = os.path.basename(comp)
            if base == "nvcc":
                extra = extra + r.choice([["--gpu-architecture=sm_80"], [["-gencode", "arch=compute_75,code=sm_75"]],
                                          [["--gpu-architecture", "sm_90"], ["--gpu-code", "sm_80"]]])
            elif base in ("icx", "icpx"):
                extra = extra + r.choice([["-fsycl"], ["-fsycl", "-fsycl-targets=spir64_gen,spir64_x86_64"],
                                          ["-fsycl-targets=nvptx64-nvidia-cuda"]])
            elif base in ("clang", "clang++"):
                extra = extra + ["-fsycl-is-device"]
        return {"src": src, "defs": defs, "incs": incs, "forced": forced, "compiler": comp,
                "extra": extra}

    def spell_path(self, target_rel, base_rel, style):
        """Spell the absolute path TOP/target_rel, possibly relative to TOP/base_rel."""
        r = self.r
        ab = os.path.join(TOP, target_rel)
        if style == "abs":
            return ab
        if base_rel is None:
            # relative to the file system root
            return ("./" if style == "dot" else "") + TOPREL + "/" + target_rel
        rel = os.path.relpath(target_rel, base_rel)
        if style == "rel":
            return rel
        if style == "dot":
            return "./" + rel
        if style == "dotdot":
            # d/../d/... only after a real directory (first component of rel that is not ..)
            parts = rel.split("/")
            if len(parts) > 1 and parts[0] not in ("..", "."):
                return parts[0] + "/../" + rel
            return rel
        raise ValueError(style)

    def entry(self, src, inc_pool, hdrs):
        return self.spell_entry(self.sem_entry(src, inc_pool, hdrs), alias=getattr(self, "alias", None))

    # --------------------------------------------------------------------------- decoration
    def make_links(self, files):
        """Aliases for C15: file links beside their targets, directory links that are siblings of
        their targets, dangling links, links to targets outside the code base.
        -> (links, alias callback)"""
        r = self.r
        links = []
        dir_links = {}    # canonical dir rel -> link rel
        file_links = {}   # canonical file rel -> link rel
        cand_dirs = [os.path.join(ROOT, d) for d in ("d1", "d2", "inc1", "inc2", "build")] + [BUILD_OUT]
        if self.cfg["ext_dir"]:
            cand_dirs.append(EXT_DIR)
        for d in cand_dirs:
            if r.random() < self.cfg.get("p_dirlink", 0.4):
                parent, name = os.path.split(d)
                lp = os.path.join(parent, "L" + name)
                links.append({"path": lp, "target": name, "kind": "dir"})
                dir_links[d] = lp
                k2 = r.random()
                if k2 < 0.2:
                    # a link to the link (chain)
                    lp2 = os.path.join(parent, "M" + name)
                    links.append({"path": lp2, "target": "L" + name, "kind": "dir"})
                    dir_links[d] = r.choice([lp, lp2])
                elif k2 < 0.4:
                    # a second, absolute link to the same directory
                    lp2 = os.path.join(parent, "N" + name)
                    links.append({"path": lp2, "target": os.path.join(TOP, d), "kind": "dir"})
                    self.second_dir_links = getattr(self, "second_dir_links", {})
                    self.second_dir_links[d] = lp2
        for f in sorted(files):
            if r.random() < self.cfg.get("p_filelink", 0.3):
                parent, name = os.path.split(f)
                lp = os.path.join(parent, "fl_" + name)
                if r.random() < self.cfg.get("p_xlang_link", 0.0):
                    # the link's own name suggests ANOTHER language than its target's (a C header kept as
                    # consts.h -> consts.F90, a .c name for a generated .cpp): the physical file decides
                    stem, ext = os.path.splitext(name)
                    ext2 = r.choice([".c", ".h"]) if ext in (".F90", ".f90") else r.choice([".F90", ".f90", ".cpp"])
                    if os.path.join(parent, "fl_" + stem + ext2) not in files:
                        lp = os.path.join(parent, "fl_" + stem + ext2)
                links.append({"path": lp, "target": name, "kind": "file"})
                file_links[f] = lp
        # file links that live in ANOTHER directory than their target (the metamorphic oracle needs no
        # compiler reading of "directory of the current file", so these are fair game); names sort
        # before or after their new siblings
        for f in sorted(files):
            if r.random() < self.cfg.get("p_xfilelink", 0.0):
                parent, name = os.path.split(f)
                others = [os.path.join(ROOT, d) if d else ROOT for d in ("", "d1", "d2", "inc1")
                          if (os.path.join(ROOT, d) if d else ROOT) != parent]
                od = r.choice(others)
                lp = os.path.join(od, r.choice(["aaa_", "zz_"]) + name)
                if lp in files or any(l["path"] == lp for l in links):
                    continue
                links.append({"path": lp, "target": os.path.relpath(f, od), "kind": "xfile"})
                if f not in file_links or r.random() < 0.5:
                    file_links[f] = lp
        if r.random() < 0.3:
            files[os.path.join(ROOT, "d2", "config.h.in")] = {"lang": "c", "text": "#define CONFIGURED @VALUE@\nint tmpl;\n"}
            links.append({"path": os.path.join(ROOT, "d2", "config_gen.h"), "target": "config.h.in", "kind": "nonsrc_target"})
        if r.random() < 0.4:
            links.append({"path": os.path.join(ROOT, "d2", "dangling.c"), "target": "nothing_here.c", "kind": "dangling"})
        if r.random() < 0.4:
            # the outside directory is either unrelated or a sibling whose name extends the root's name
            od = r.choice(["ext", "src-legacy", "src2"])
            links.append({"path": os.path.join(ROOT, "d2", "outlink.c"), "target": f"../../{od}/outfile.c", "kind": "outside"})
            files[os.path.join("proj", od, "outfile.c")] = {"lang": "c", "items": [["code", 3]]}
        if r.random() < 0.3:
            links.append({"path": os.path.join(ROOT, "Lextdir"), "target": "../ext", "kind": "outside_dir"})
        p_alias = self.cfg.get("p_alias", 0.6)

        def alias(rel):
            out = rel
            if r.random() < p_alias:
                if out in file_links and r.random() < 0.5:
                    out = file_links[out]
                for d in sorted(dir_links, key=len, reverse=True):
                    if (out == d or out.startswith(d + "/")) and r.random() < 0.7:
                        via = dir_links[d]
                        second = getattr(self, "second_dir_links", {}).get(d)
                        if second and r.random() < 0.5:
                            via = second     # two different links to one directory used in one analysis
                        out = via + out[len(d):]
                        break
                if r.random() < 0.3:
                    parts = out.split("/")
                    i = r.randint(1, len(parts) - 1)
                    out = "/".join(parts[:i] + ["."] + parts[i:])
            return out

        return links, alias

    def spell_entry(self, sem, alias=None, canonical=False):
        """Concrete entry for a semantic entry. alias: optional callback mapping a canonical path
        (relative to the scratch top) to one of its aliases; canonical: absolute canonical
        spellings only, no `directory`."""
        r, cfg = self.r, self.cfg
        full = cfg["spelling"] == "full"
        alias = alias or (lambda p: p)
        e = {}
        if canonical:
            e["file"] = os.path.join(TOP, sem["src"])
            argv = [sem["compiler"]]
            for d in sem["defs"]:
                argv.append("-D" + d)
            for kind, d in sem["incs"]:
                argv += ["-I" if kind == "I" else "-isystem", os.path.join(TOP, d)]
            for f in sem["forced"]:
                argv += ["-include", f]
            for x in sem["extra"]:
                argv += list(x) if isinstance(x, list) else [x]
            argv += ["-c", e["file"]]
            e["arguments"] = argv
            return e
        # directory
        if full:
            dmode = r.choice(["none", "absroot", "abs_in", "abs_out", "rel_in", "rel_out", "rel_dot",
                              "sub_abs", "sub_rel", "sub_rel", "gone"] + (["fsroot"] if cfg.get("fsroot_dir") else []))
        else:
            dmode = r.choice(["none", "none", "absroot"])
        if dmode == "none":
            base = ROOT
        elif dmode == "absroot":
            base = ROOT
            e["directory"] = os.path.join(TOP, ROOT)
        elif dmode == "abs_in":
            base = BUILD_IN
            e["directory"] = os.path.join(TOP, alias(BUILD_IN))
        elif dmode == "abs_out":
            base = BUILD_OUT
            e["directory"] = os.path.join(TOP, alias(BUILD_OUT))
        elif dmode == "rel_in":
            base = BUILD_IN
            e["directory"] = os.path.relpath(BUILD_IN, ROOT)
        elif dmode == "rel_out":
            base = BUILD_OUT
            e["directory"] = os.path.relpath(BUILD_OUT, ROOT)
        elif dmode == "fsroot":
            # a build recorded with the file system root as its working directory (container WORKDIR /, make -C /):
            # everything relative in the command is relative to "/"
            base = None
            e["directory"] = "/"
        elif dmode == "gone":
            # the build directory no longer exists; paths relative to it can only be read lexically
            base = BUILD_GONE
            e["directory"] = r.choice([os.path.join(TOP, BUILD_GONE), os.path.relpath(BUILD_GONE, ROOT)])
        elif dmode in ("sub_abs", "sub_rel"):
            # sub-project layout: the command runs in d1 or d2, which both have an "inc" directory
            sub = "d1" if sem["src"].startswith(os.path.join(ROOT, "d1") + "/") else \
                ("d2" if sem["src"].startswith(os.path.join(ROOT, "d2") + "/") else r.choice(["d1", "d2"]))
            base = os.path.join(ROOT, sub)
            e["directory"] = os.path.join(TOP, alias(base)) if dmode == "sub_abs" else \
                sub + r.choice(["", "/", "/.", "/../" + sub, "/inc/.."])
        else:
            base = ROOT
            e["directory"] = "."
        styles = ["abs", "rel", "rel", "dot", "dotdot"] if full else ["abs", "rel", "rel", "dot"]
        e["file"] = self.spell_path(alias(sem["src"]), base, r.choice(styles))
        argv = [sem["compiler"]]
        opts = []
        for d in sem["defs"]:
            opts.append(["-D" + d] if r.random() < 0.7 else ["-D", d])
        for kind, d in sem["incs"]:
            sp = self.spell_path(alias(d), base, r.choice(styles))
            if kind == "I":
                opts.append(["-I" + sp] if r.random() < 0.6 else ["-I", sp])
            else:
                opts.append(["-isystem", sp])
        for f in sem["forced"]:
            opts.append(["-include", os.path.join(TOP, alias(f[len(TOP) + 1:])) if f.startswith(TOP + "/") else f])
        for x in sem["extra"]:
            opts.append(list(x) if isinstance(x, list) else [x])     # a flag and its value stay together
        # Order among -D/-I/-isystem/-include groups is kept (it is semantic); unknown flags and
        # -c/-o are interleaved freely.
        misc = [["-c"], ["-o", "out.o"], ["-O2"], ["-g"]]
        r.shuffle(misc)
        for mopt in misc[: r.randint(0, 3)]:
            opts.insert(r.randint(0, len(opts)), mopt)
        for o in opts:
            argv += o
        argv.append(e["file"])
        if r.random() < 0.5:
            e["arguments"] = argv
        elif cfg.get("backslash_commands") and r.random() < 0.5:
            # the other legal way to write a shell command: backslash escapes instead of quotes
            e["command"] = " ".join("".join(ch if (ch.isalnum() or ch in "@%+=:,./-_") else "\\" + ch for ch in a) or "''"
                                    for a in argv)
        else:
            e["command"] = shlex.join(argv)
        return e

    def variant_twin(self, ents):
        from .world import entry_argv
        r = self.r
        e = dict(r.choice(ents))
        argv = entry_argv(e)
        if len(argv) < 2:
            return
        kind = r.choice(["output", "drop_define", "swap_includes", "add_define", "same"])
        body = argv[1:-1] if argv[-1] == e["file"] else argv[1:]
        tail = [argv[-1]] if argv[-1] == e["file"] else []
        if kind == "output":
            body = body + ["-o", f"other_{r.randint(0, 9)}.o"]
        elif kind == "drop_define":
            ds = [i for i, a in enumerate(body) if a.startswith("-D") and len(a) > 2]
            if ds:
                del body[r.choice(ds)]
        elif kind == "add_define":
            have = set()
            for i, a in enumerate(body):
                if a.startswith("-D"):
                    have.add((a[2:] if len(a) > 2 else (body[i + 1] if i + 1 < len(body) else "")).split("=")[0])
            free = [m for m in FLAG_MACROS if m not in have]
            if free:
                body = body + ["-D" + r.choice(free)]
        elif kind == "swap_includes":
            ix = [i for i, a in enumerate(body) if a.startswith("-I") and len(a) > 2]
            if len(ix) >= 2:
                i, j = r.sample(ix, 2)
                body[i], body[j] = body[j], body[i]
        e.pop("command", None)
        e["arguments"] = [argv[0]] + body + tail
        ents.insert(r.randint(0, len(ents)), e)

    def twin_entries(self, w):
        """C13: the same command text run from two sibling directories (d1 and d2 both have an `inc`
        directory): everything relative in it means something else in the twin."""
        r = self.r
        for p in w["platforms"]:
            for e in list(p["entries"]):
                d = e.get("directory")
                if d is None or r.random() > 0.5:
                    continue
                for a, b in (("d1", "d2"), ("d2", "d1")):
                    tail = [a, a + "/", a + "/."]
                    absd = os.path.join(TOP, ROOT, a)
                    if d in tail or d == absd:
                        nd = d.replace(a, b) if d in tail else os.path.join(TOP, ROOT, b)
                        f = e["file"]
                        tgt = f[len(TOP) + 1:] if f.startswith(TOP + "/") else \
                            os.path.normpath(os.path.join(ROOT, b, f))
                        if tgt in w["files"]:
                            twin = dict(e)
                            twin["directory"] = nd
                            p["entries"].insert(r.randint(0, len(p["entries"])), twin)
                        break

    def add_db_faults(self, ents):
        r, f = self.r, self.cfg["faults"]
        out = list(ents)
        n = 0
        for kind in ("missing_entry", "non_source", "empty_command"):
            rate = f.get(kind, 0.0)
            while rate and r.random() < rate and n < 3:
                n += 1
                self.uid += 1
                if kind == "missing_entry":
                    e = {"file": os.path.join(TOP, ROOT, f"gen_missing_{self.uid}.c"),
                         "arguments": ["gcc", "-DA"] + r.choice([[], [], ["-g3"], ["-ggdb"]]) + ["-c", f"gen_missing_{self.uid}.c"]}
                    k2 = r.random()
                    if k2 < 0.4:
                        e = {"file": f"d1/gen_missing_{self.uid}.c",
                             "command": f"gcc -c d1/gen_missing_{self.uid}.c"}
                    elif k2 < 0.6:
                        # absent for another reason than "no such entry": a path THROUGH a regular file
                        srcs = sorted(p for p in self._files if p.startswith(ROOT + "/") and p.endswith((".c", ".cpp")))
                        if srcs:
                            through = os.path.relpath(r.choice(srcs), ROOT) + f"/part_{self.uid}.c"
                            e = {"file": through, "arguments": ["gcc", "-c", through]}
                elif kind == "non_source":
                    e = r.choice([
                        {"file": "s0.o", "arguments": ["gcc", "-o", "a.out", "s0.o"]},
                        {"file": os.path.join(TOP, ROOT, "lib.a"), "command": "ar rcs lib.a s0.o"},
                        {"file": "notes.txt", "arguments": ["gcc", "-c", "notes.txt"]},
                    ])
                    if r.random() < 0.7:
                        # the non-source file really exists (an object file left by a build)
                        name = os.path.basename(e["file"])
                        self.extra_files[os.path.join(ROOT, name)] = {"lang": "c", "text": "\x7fOBJ not source\n#if 1\n"}
                else:
                    e = r.choice([{"file": "s0.c", "arguments": []},
                                  {"file": os.path.join(TOP, ROOT, "s0.c"), "command": ""}])
                out.insert(r.randint(0, len(out)), e)
        return out


def gen_world(r, profile):
    cfg = draw_cfg(r, profile)
    return Gen(r, cfg).world(), cfg
