"""Self-tests of the machinery itself.

  check selftest determinism [N]   every engine, N seeds: same digests across worker counts, across
                                   harness hash seeds and across repeated fresh interpreters
  check selftest sensitivity [ID]  every patch in /verif/mutants (or those for ID) applied to a scratch
                                   worktree of /repo must turn the named quick check red
  check selftest model [N]         reference model vs gcc -E on N fault-free worlds
"""
import json
import os
import shutil
import subprocess
import sys
import time

from . import runners

VERIF = runners.VERIF


def _digests(pid, n, workers, hashseed, out):
    env = dict(os.environ)
    env.pop("CBISIM_REEXEC", None)
    env["CBISIM_HARNESS_HASHSEED"] = str(hashseed)
    env["CBISIM_WORKERS"] = str(workers)
    p = subprocess.run([os.path.join(VERIF, "check"), "selftest", "_digest", pid, str(n)], env=env,
                       capture_output=True, text=True, timeout=3600)
    lines = [l for l in p.stdout.split("\n") if l.startswith("D ")]
    if p.returncode != 0 or len(lines) != n:
        out(f"HARNESS-ERROR digest run failed pid={pid} rc={p.returncode} lines={len(lines)} {p.stdout[-300:]} {p.stderr[-300:]}")
        return None
    return lines


def cmd_digest(pid, n, out):
    from . import campaign

    runners.preload()
    eng = campaign.engine_for(pid)
    camp = campaign.run_campaign(pid, "quick", int(os.environ.get("VERIF_SEED", "0")), n,
                                 workers=int(os.environ.get("CBISIM_WORKERS", "16")), wall_cap=3000,
                                 opts=dict(eng.TIERS["quick"].get("opts") or {}, max_violations=10 ** 9))
    for r in camp["results"]:
        out(f"D {r['i']} {r['seed']} {r.get('verdict')} {r.get('digest')}")
    return 0


def determinism(n, out, pids=None):
    from . import campaign

    bad = 0
    for pid in pids or sorted(campaign.ENGINES):
        t0 = time.monotonic()
        a = _digests(pid, n, 16, 0, out)
        b = _digests(pid, n, 3, 0, out)
        c = _digests(pid, n, 16, 424242, out)
        if a is None or b is None or c is None:
            bad += 1
            continue
        diff = [(x, y, z) for x, y, z in zip(a, b, c) if not (x == y == z)]
        herr = sum(1 for x in a if " harness_error " in x)
        out(f"[selftest determinism] {pid}: {n} seeds x 3 configurations (16 workers, 3 workers, other harness "
            f"hash seed): {len(diff)} divergent, {herr} harness errors, {time.monotonic() - t0:.0f}s")
        for d in diff[:5]:
            out("   " + " | ".join(d))
        bad += len(diff) + herr
    return 0 if bad == 0 else 2


def sensitivity(out, only=None):
    idx_path = os.path.join(VERIF, "mutants", "INDEX.json")
    with open(idx_path) as f:
        idx = json.load(f)
    repo = runners.REPO
    missed = 0
    rows = []
    for m in idx:
        if only and m["property"] != only and m["id"] != only:
            continue
        wt = os.path.join("/dev/shm", f"cbisim-mut-{os.getpid()}")
        shutil.rmtree(wt, ignore_errors=True)
        try:
            subprocess.run(["git", "-C", repo, "worktree", "add", "--detach", "-q", wt, "HEAD"], check=True,
                           capture_output=True)
            p = subprocess.run(["git", "-C", wt, "apply", os.path.join(VERIF, m["patch"])], capture_output=True, text=True)
            if p.returncode != 0:
                out(f"[selftest sensitivity] {m['id']}: patch does not apply: {p.stderr[:200]}")
                missed += 1
                continue
            env = dict(os.environ)
            env.pop("CBISIM_REEXEC", None)
            env["CBISIM_REPO"] = wt
            env["CBISIM_RUNS"] = str(m.get("runs", 0) or "")
            if not env["CBISIM_RUNS"]:
                env.pop("CBISIM_RUNS")
            t0 = time.monotonic()
            res = {}
            for pid in m.get("checks", [m["property"]]):
                q = subprocess.run([os.path.join(VERIF, "check"), pid, "quick"], env=env, capture_output=True,
                                   text=True, timeout=3600)
                res[pid] = q.returncode
                # the mutant run must not leave evidence of a mutated tree behind
            caught = any(v == 1 for v in res.values())
            rows.append((m["id"], m["property"], caught, res, round(time.monotonic() - t0)))
            out(f"[selftest sensitivity] {m['id']} ({m['property']}): {'caught' if caught else 'MISSED'} {res} "
                f"{time.monotonic() - t0:.0f}s")
            if not caught and m.get("expected", "caught") == "caught":
                missed += 1
        finally:
            subprocess.run(["git", "-C", repo, "worktree", "remove", "--force", wt], capture_output=True)
            shutil.rmtree(wt, ignore_errors=True)
    out(f"[selftest sensitivity] {len(rows)} mutants, {sum(1 for r in rows if r[2])} caught, {missed} unexpected misses")
    return 0 if missed == 0 else 2


BENIGN_RUNS = {"C04": 600, "C08": 160, "C13": 600, "C14": 48, "C15": 300, "C18": 600}


def benign(out, only=None):
    """Every behaviour-preserving refactoring in /verif/benign must leave every check green."""
    with open(os.path.join(VERIF, "benign", "INDEX.json")) as f:
        idx = json.load(f)
    repo = runners.REPO
    alarms = 0
    for m in idx:
        if only and m["id"] != only:
            continue
        wt = os.path.join("/dev/shm", f"cbisim-benign-{os.getpid()}")
        shutil.rmtree(wt, ignore_errors=True)
        try:
            subprocess.run(["git", "-C", repo, "worktree", "add", "--detach", "-q", wt, "HEAD"], check=True,
                           capture_output=True)
            p = subprocess.run(["git", "-C", wt, "apply", os.path.join(VERIF, m["patch"])], capture_output=True, text=True)
            if p.returncode != 0:
                out(f"[selftest benign] {m['id']}: patch does not apply: {p.stderr[:200]}")
                alarms += 1
                continue
            res = {}
            t0 = time.monotonic()
            for pid, n in BENIGN_RUNS.items():
                env = dict(os.environ)
                env.pop("CBISIM_REEXEC", None)
                env["CBISIM_REPO"] = wt
                env["CBISIM_RUNS"] = str(n)
                q = subprocess.run([os.path.join(VERIF, "check"), pid, "quick"], env=env, capture_output=True,
                                   text=True, timeout=3600)
                res[pid] = q.returncode
                if q.returncode != 0:
                    lines = [l for l in q.stdout.split("\n") if l.startswith(("VIOLATION", "HARNESS", "  class"))]
                    out(f"   {pid}: " + " | ".join(lines)[:600])
            bad = {k: v for k, v in res.items() if v != 0}
            alarms += len(bad)
            out(f"[selftest benign] {m['id']}: {'clean' if not bad else 'ALARM ' + str(bad)} {time.monotonic() - t0:.0f}s")
        finally:
            subprocess.run(["git", "-C", repo, "worktree", "remove", "--force", wt], capture_output=True)
            shutil.rmtree(wt, ignore_errors=True)
    return 0 if alarms == 0 else 2


def main(args, out):
    if not args:
        out(__doc__)
        return 2
    if args[0] == "_digest":
        return cmd_digest(args[1], int(args[2]), out)
    if args[0] == "determinism":
        n = int(args[1]) if len(args) > 1 else 64
        return determinism(n, out, args[2:] or None)
    if args[0] == "sensitivity":
        return sensitivity(out, args[1] if len(args) > 1 else None)
    if args[0] == "benign":
        return benign(out, args[1] if len(args) > 1 else None)
    if args[0] == "model":
        from . import gcccheck

        return gcccheck.main(int(args[1]) if len(args) > 1 else 200, out)
    out(__doc__)
    return 2
