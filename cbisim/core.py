"""Shared engine plumbing: seeds, scratch trees, spec builders, comparison helpers."""
import copy
import hashlib
import json
import os
import random
import shutil

from . import refmodel, runners
from . import world as W

SCRATCH_BASE = os.environ.get("CBISIM_SCRATCH") or ("/dev/shm" if os.path.isdir("/dev/shm") else
                                                    __import__("tempfile").gettempdir())


def derive_seed(prop, verif_seed, i):
    h = hashlib.sha256(f"{prop}:{verif_seed}:{i}".encode()).hexdigest()
    return int(h[:12], 16)


def rng_for(seed, stream=""):
    return random.Random(f"{seed}/{stream}")


def jdigest(obj):
    return hashlib.sha256(json.dumps(obj, sort_keys=True).encode()).hexdigest()[:16]


class Scratch:
    """A private scratch tree whose *path* is a pure function of (namespace, slot).  The slot of a
    run is its run index, so everything that can depend on the absolute path (notably the hash order
    of sets of paths inside the SUT) is the same when the run is repeated or replayed, whichever
    worker executes it.  All names have equal length so that nothing printed changes width.  An
    advisory lock serialises accidental concurrent users of one slot."""

    def __init__(self, slot, ns="run"):
        self.base = os.path.join(SCRATCH_BASE, f"cbisim-{os.getuid():05d}", ns[:8],
                                 f"r{int(slot):06d}")
        self._lock = None

    def _acquire(self):
        if self._lock is None:
            import fcntl

            os.makedirs(os.path.dirname(self.base), exist_ok=True)
            fd = os.open(self.base + ".lock", os.O_CREAT | os.O_RDWR, 0o600)
            fcntl.flock(fd, fcntl.LOCK_EX)
            self._lock = fd

    def fresh(self, tag="t"):
        """An empty directory <base>/<tag> (previous contents removed)."""
        self._acquire()
        p = os.path.join(self.base, tag)
        shutil.rmtree(p, ignore_errors=True)
        os.makedirs(p)
        return p

    def cleanup(self):
        shutil.rmtree(self.base, ignore_errors=True)
        if self._lock is not None:
            try:
                os.unlink(self.base + ".lock")
            except OSError:
                pass
            os.close(self._lock)
            self._lock = None


def plat_specs(world, top, names=None, order=None):
    ps = W.order_by(world["platforms"], order)
    return [{"name": p["name"], "db": os.path.join(top, p["db"])} for p in ps
            if names is None or p["name"] in names]


def api_spec(world, top, analyses=None, **kw):
    root = os.path.join(top, world["root"])
    if analyses is None:
        analyses = [{"platforms": plat_specs(world, top), "excludes": world.get("excludes", [])}]
    spec = {"top": top, "root": root, "cwd": kw.pop("cwd", root), "analyses": analyses}
    spec.update(kw)
    return spec


def run_api(world, top, hashseed=None, **kw):
    return runners.run_fresh("api_run", api_spec(world, top, **kw), hashseed=hashseed)


def write_db(world, top, plat_name, entries, relpath):
    """Write an extra compilation database (subset / permutation of a platform's entries)."""
    full = os.path.join(top, relpath)
    os.makedirs(os.path.dirname(full), exist_ok=True)
    with open(full, "w") as f:
        json.dump([W.concrete_entry(e, top) for e in entries], f, indent=1)
    return full


def union_attr(observations):
    """Union of per-line attributions of several observations."""
    out = {}
    for o in observations:
        for f, lines in o["attr"].items():
            d = out.setdefault(f, {})
            for l, ps in lines.items():
                d[l] = sorted(set(d.get(l, [])) | set(ps))
    return out


def diff_attr(a, b, files=None, limit=6):
    """Differences between two attributions {file:{line:[plats]}} -> list of tuples."""
    diffs = []
    fs = sorted(set(a) | set(b)) if files is None else sorted(files)
    for f in fs:
        la, lb = a.get(f), b.get(f)
        if la is None or lb is None:
            # A file parsed on one side only: relevant only if it carries attribution.
            side = la if la is not None else lb
            if any(side[l] for l in side):
                diffs.append(("file_only_one_side", f, "left" if lb is None else "right"))
            continue
        for l in sorted(set(la) | set(lb), key=int):
            if la.get(l) != lb.get(l):
                diffs.append(("line", f, int(l), la.get(l), lb.get(l)))
                if len(diffs) >= limit:
                    return diffs
    return diffs


def model_attr(model, ev, files):
    """Model attribution in the observation's format for the given canonical files."""
    out = {}
    for rel in files:
        if rel not in model.world["files"] or "items" not in model.world["files"][rel]:
            continue
        counted = model.counted_lines(rel)
        used = ev["used"].get(rel, {})
        out[rel] = {str(l): sorted(used.get(l, ())) for l in sorted(counted)}
    return out


def restrict_attr(attr, plats):
    s = set(plats)
    return {f: {l: [p for p in ps if p in s] for l, ps in lines.items()} for f, lines in attr.items()}


def entry_add_args(entry, extra):
    e = copy.deepcopy(entry)
    if "arguments" in e:
        e["arguments"] = list(e["arguments"]) + list(extra)
    else:
        import shlex

        e["command"] = e["command"] + " " + shlex.join(extra)
    return e


def repair_missing(world, top, max_iter=8):
    """Constructive well-formedness for properties whose domain excludes missing headers: while
    the reference model sees an include that resolves to nothing although a world file with that
    spelling exists, append (lowest priority) a search directory that provides it.
    Re-writes the affected databases under top. -> number of repairs, remaining events"""
    repairs = 0
    for _ in range(max_iter):
        model = refmodel.Model(world, top)
        ev = model.evaluate()
        todo = {}
        for (pn, ei, rel, line, sp, form) in ev["events"]:
            cands = sorted(p for p in world["files"] if p == sp or p.endswith("/" + sp))
            # never name a directory twice (gcc ignores -I for a directory also given as -isystem)
            e_cfg = refmodel.entry_config(W.concrete_entry(
                next(p for p in world["platforms"] if p["name"] == pn)["entries"][ei], model.top), model.root)
            have = {os.path.relpath(x, model.top) for x in e_cfg["search"]}
            cands = [c for c in cands if c[: len(c) - len(sp)].rstrip("/") not in have]
            if not cands:
                continue
            d = cands[0][: len(cands[0]) - len(sp)].rstrip("/")
            todo.setdefault((pn, ei), [])
            flag = ["-I", os.path.join(W.TOP, d)]
            if flag not in todo[(pn, ei)]:
                todo[(pn, ei)].append(flag)
        if not todo:
            return repairs, ev
        for p in world["platforms"]:
            changed = False
            for ei in range(len(p["entries"])):
                for flag in todo.get((p["name"], ei), [])[:1]:
                    p["entries"][ei] = entry_add_args(p["entries"][ei], flag)
                    repairs += 1
                    changed = True
            if changed:
                write_db(world, top, p["name"], p["entries"], p["db"])
    model = refmodel.Model(world, top)
    return repairs, model.evaluate()
