"""Campaign driver: seeded runs over a worker pool, violation handling (minimise, replay file,
fresh-process confirmation, known findings), evidence."""
import concurrent.futures as cf
import importlib
import json
import multiprocessing
import os
import subprocess
import sys
import time
import traceback

from . import core, minimise, runners

VERIF = runners.VERIF
ENGINES = {"C04": "c04", "C08": "c08", "C13": "c13", "C14": "c14", "C15": "c15", "C18": "c18"}
KNOWN_FILE = os.path.join(VERIF, "known_findings.json")


def engine_for(pid):
    return importlib.import_module("cbisim.engines." + ENGINES[pid])


def repo_head():
    try:
        return subprocess.run(["git", "-C", runners.REPO, "rev-parse", "HEAD"], capture_output=True,
                              text=True, timeout=20).stdout.strip()
    except Exception:  # noqa
        return "unknown"


# ------------------------------------------------------------------------------------ workers
_slot = None


def _worker_init(counter):
    global _slot
    with counter.get_lock():
        _slot = counter.value
        counter.value += 1


def _one_run(pid, verif_seed, i, opts):
    eng = engine_for(pid)
    ns = pid + str(opts.get("tier", "q"))[:1]
    sc = core.Scratch(i, ns)
    seed = core.derive_seed(pid, verif_seed, i)
    t0 = time.monotonic()
    try:
        gopts = opts.get("gen") or {}
        case = eng.generate(seed, sc, **gopts)
        res = eng.execute(case, sc)
        res["i"] = i
        res["slot"] = i
        res["ns"] = ns
        res["seed"] = seed
        res["wall"] = time.monotonic() - t0
        res["fingerprint"] = core.jdigest([case["world"], case["schedule"]])
        res["digest"] = core.jdigest([case["world"], case["schedule"], res.get("verdict"),
                                      res.get("violation"), res.get("stats"), res.get("obs_digest")])
        if res["verdict"] == "violation" or opts.get("keep_case") or i in opts.get("sample_idx", ()):
            res["case"] = case
        res["size"] = _case_size(case)
        return res
    except runners.HarnessError as e:
        return {"i": i, "seed": seed, "verdict": "harness_error", "detail": str(e)[:2000],
                "wall": time.monotonic() - t0}
    except Exception as e:  # noqa
        return {"i": i, "seed": seed, "verdict": "harness_error",
                "detail": f"{type(e).__name__}: {e}\n{traceback.format_exc()[-1500:]}",
                "wall": time.monotonic() - t0}
    finally:
        sc.cleanup()


def _case_size(case):
    from . import world as W

    return W.world_size(case["world"])


# ----------------------------------------------------------------------------- known findings
def load_known():
    if not os.path.exists(KNOWN_FILE):
        return []
    with open(KNOWN_FILE) as f:
        return json.load(f)


def replay_case(pid, case, slot=999000, ns=None):
    eng = engine_for(pid)
    sc = core.Scratch(slot, ns or (pid + "q"))
    try:
        return eng.execute(case, sc)
    finally:
        sc.cleanup()


def known_replays(k, pid):
    """Replay files of a known-findings entry that belong to this property."""
    rp = k.get("replays", {}).get(pid, [])
    if isinstance(rp, str):
        rp = [rp]
    return [os.path.join(VERIF, p) for p in rp]


def check_known(pid, out):
    """Replay every finding listed for this property. Open findings that still reproduce are
    printed as KNOWN-FINDING; fixed findings suppress nothing - if one reproduces again it is
    returned as REGRESSION:<id>:<replay> and reported as a VIOLATION."""
    reproduced = []
    for k in load_known():
        if pid not in k.get("properties", []):
            continue
        hit_any = False
        for rp in known_replays(k, pid):
            with open(rp) as f:
                rec = json.load(f)
            res = replay_case(pid, rec["case"], slot=rec.get("slot", 999000), ns=rec.get("ns"))
            hit = res["verdict"] == "violation" and \
                res["violation"]["class"] == rec["violation"]["class"]
            if hit and k["status"] != "open":
                reproduced.append(f"REGRESSION:{k['id']}:{rp}")
            hit_any = hit_any or hit
        if k["status"] == "open" and hit_any:
            out(f"KNOWN-FINDING: property={pid} {k['id']}: {k['what']}")
            reproduced.append(k["id"])
    return reproduced


def classify_known(pid, case, violation):
    """Is this (minimised) violation one of the open known findings? Decided by the engine's own
    signature predicate for that finding, never by text matching."""
    eng = engine_for(pid)
    for k in load_known():
        if k["status"] != "open" or pid not in k.get("properties", []):
            continue
        sig = k.get("signature", {})
        if sig.get("class") != violation["class"]:
            continue
        pred = getattr(eng, "matches_known", None)
        if pred and pred(k["id"], case, violation):
            return k["id"]
    return None


# -------------------------------------------------------------------------------- the campaign
def run_campaign(pid, tier, verif_seed, n_runs, workers=16, wall_cap=None, opts=None, out=print):
    """-> dict(results, violations, harness_errors, truncated, wall)"""
    opts = dict(opts or {})
    t0 = time.monotonic()
    ctx = multiprocessing.get_context("fork")
    counter = ctx.Value("i", 0)
    results = []
    truncated = False
    sample_idx = {0, n_runs // 2, n_runs - 1}
    opts["sample_idx"] = sorted(sample_idx)
    opts["tier"] = tier
    with cf.ProcessPoolExecutor(max_workers=workers, mp_context=ctx, initializer=_worker_init,
                                initargs=(counter,)) as ex:
        futs = {ex.submit(_one_run, pid, verif_seed, i, opts): i for i in range(n_runs)}
        try:
            for fu in cf.as_completed(futs, timeout=wall_cap):
                results.append(fu.result())
                nviol = sum(1 for r in results if r["verdict"] == "violation")
                if nviol >= opts.get("max_violations", 8):
                    truncated = True
                    break
        except cf.TimeoutError:
            truncated = True
        for fu in futs:
            fu.cancel()
        if truncated:
            # do not wait for queued work
            ex.shutdown(wait=False, cancel_futures=True)
    results.sort(key=lambda r: r["i"])
    return {"results": results, "truncated": truncated, "wall": time.monotonic() - t0,
            "n_requested": n_runs}


def handle_violations(pid, results, out=print, max_report=3):
    """Minimise, write replay files, confirm in a fresh process. -> (n_new, n_known, harness_errs)"""
    eng = engine_for(pid)
    viol = [r for r in results if r["verdict"] == "violation"]
    # smallest first: cheaper to minimise and nicer to read
    viol.sort(key=lambda r: (r.get("size", 0), r["i"]))
    seen_classes = {}
    new = 0
    known = 0
    herr = []
    for r in viol:
        cls = r["violation"]["class"]
        if seen_classes.get(cls, 0) >= 1 or new + known >= max_report:
            continue
        seen_classes[cls] = seen_classes.get(cls, 0) + 1
        case = r["case"]

        def test(c, cls=cls):
            res = replay_case(pid, c, slot=r.get("slot", 999001), ns=r.get("ns"))
            return res["verdict"] == "violation" and res["violation"]["class"] == cls and \
                (not hasattr(eng, "accept_shrunk") or eng.accept_shrunk(r, res))

        small, mstats = minimise.minimise(case, test, engine=eng)
        final = replay_case(pid, small, slot=r.get("slot", 999001), ns=r.get("ns"))
        if final["verdict"] != "violation" or final["violation"]["class"] != cls:
            small, final = case, replay_case(pid, case, slot=r.get("slot", 999001), ns=r.get("ns"))
        kid = classify_known(pid, small, final.get("violation") or r["violation"])
        rec = {"property": pid, "seed": r["seed"], "run_index": r["i"], "slot": r.get("slot", 999001),
               "ns": r.get("ns"),
               "case": small,
               "violation": final.get("violation") or r["violation"], "minimise": mstats,
               "original_size": r.get("size"), "minimised_size": _case_size(small),
               "repo_head": repo_head()}
        rdir = os.path.join(VERIF, "replays", pid)
        os.makedirs(rdir, exist_ok=True)
        path = os.path.join(rdir, f"{r['seed']:012x}-{cls}.json")
        with open(path, "w") as f:
            json.dump(rec, f, indent=1, sort_keys=True)
        # fresh-process confirmation
        p = subprocess.run([os.path.join(VERIF, "check"), pid, "--replay", path],
                           capture_output=True, text=True, timeout=600)
        if p.returncode != 1 or f"class={cls}" not in p.stdout:
            herr.append(f"replay {path} did not reproduce in a fresh process (rc={p.returncode}): "
                        + p.stdout[-300:] + p.stderr[-300:])
            continue
        if kid:
            out(f"KNOWN-FINDING: property={pid} {kid} (reached by search; replay={path})")
            known += 1
        else:
            out(f"VIOLATION property={pid} replay={path}")
            out(f"  class={cls} seed={r['seed']} size {r.get('size')}->{rec['minimised_size']} "
                f"detail={json.dumps(rec['violation']['detail'])[:400]}")
            new += 1
    return new, known, herr
