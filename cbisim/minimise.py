"""Structural delta debugging of a case (world + schedule) while the same violation class persists."""
import copy
import time

from . import world as W


def _item_paths(items, prefix=()):
    """Yield paths to every item, children before parents' later siblings (pre-order)."""
    for i, it in enumerate(items):
        yield prefix + (i,)
        if it[0] == "cond":
            for bi, br in enumerate(it[1]):
                yield from _item_paths(br[2], prefix + (i, "b", bi))


def _get_list(items, path):
    """Return (list, index) addressed by an item path."""
    cur = items
    k = 0
    while k < len(path) - 1:
        i = path[k]
        assert path[k + 1] == "b"
        bi = path[k + 2]
        cur = cur[i][1][bi][2]
        k += 3
    return cur, path[-1]


def candidates(case, engine=None):
    """Yield simpler variants of the case, coarse first."""
    w = case["world"]
    # 0. engine-specific schedule simplifications (cheap wins first)
    if engine is not None and hasattr(engine, "shrink_schedule"):
        for c in engine.shrink_schedule(case):
            yield "schedule", c
    # 1. platforms
    if len(w["platforms"]) > 1:
        for i in range(len(w["platforms"])):
            c = copy.deepcopy(case)
            del c["world"]["platforms"][i]
            yield "drop_platform", c
    # 2. entries
    for pi, p in enumerate(w["platforms"]):
        for ei in range(len(p["entries"])):
            c = copy.deepcopy(case)
            del c["world"]["platforms"][pi]["entries"][ei]
            yield "drop_entry", c
    # 3. links
    for li in range(len(w.get("links", []))):
        c = copy.deepcopy(case)
        del c["world"]["links"][li]
        yield "drop_link", c
    # 4. files
    for f in sorted(w["files"]):
        c = copy.deepcopy(case)
        del c["world"]["files"][f]
        yield "drop_file", c
    # 6. whole bodies -> one code line; cond -> a branch body; drop items
    for f in sorted(w["files"]):
        fd = w["files"][f]
        if "items" not in fd:
            continue
        paths = list(_item_paths(fd["items"]))
        for p in paths:
            lst, idx = _get_list(fd["items"], p)
            it = lst[idx]
            if it[0] == "cond":
                for bi in range(len(it[1])):
                    c = copy.deepcopy(case)
                    l2, i2 = _get_list(c["world"]["files"][f]["items"], p)
                    l2[i2:i2 + 1] = l2[i2][1][bi][2]
                    yield "cond_to_branch", c
                if len(it[1]) > 1:
                    for bi in range(1, len(it[1])):
                        c = copy.deepcopy(case)
                        l2, i2 = _get_list(c["world"]["files"][f]["items"], p)
                        del l2[i2][1][bi]
                        yield "drop_branch", c
            c = copy.deepcopy(case)
            l2, i2 = _get_list(c["world"]["files"][f]["items"], p)
            del l2[i2]
            yield "drop_item", c
            if it[0] == "code" and it[1] > 1:
                c = copy.deepcopy(case)
                l2, i2 = _get_list(c["world"]["files"][f]["items"], p)
                l2[i2] = ["code", 1]
                yield "shrink_code", c
    # 7. arguments
    for pi, p in enumerate(w["platforms"]):
        for ei, e in enumerate(p["entries"]):
            argv = W.entry_argv(e)
            i = 1
            while i < len(argv) - 1:
                a = argv[i]
                n = 2 if a in ("-D", "-I", "-isystem", "-include", "-o") else 1
                c = copy.deepcopy(case)
                na = argv[:i] + argv[i + n:]
                ce = c["world"]["platforms"][pi]["entries"][ei]
                ce.pop("command", None)
                ce["arguments"] = na
                yield "drop_arg", c
                i += n
            if "directory" in e:
                c = copy.deepcopy(case)
                ce = c["world"]["platforms"][pi]["entries"][ei]
                if ce["file"].startswith(W.TOP):
                    del ce["directory"]
                    yield "drop_directory", c
    if w.get("cbi_config"):
        c = copy.deepcopy(case)
        c["world"]["cbi_config"] = None
        yield "drop_cbi_config", c
    if w.get("excludes"):
        c = copy.deepcopy(case)
        c["world"]["excludes"] = []
        yield "drop_excludes", c


def minimise(case, test, engine=None, max_candidates=400, max_seconds=90):
    """test(case) -> bool (same violation class still present). Returns (case, stats)."""
    t0 = time.monotonic()
    tried = 0
    accepted = 0
    progress = True
    while progress:
        progress = False
        for kind, cand in candidates(case, engine):
            if tried >= max_candidates or time.monotonic() - t0 > max_seconds:
                return case, {"tried": tried, "accepted": accepted, "complete": False}
            tried += 1
            try:
                ok = test(cand)
            except Exception:  # noqa - a candidate the harness cannot judge is simply not taken
                ok = False
            if ok:
                case = cand
                accepted += 1
                progress = True
                break
    return case, {"tried": tried, "accepted": accepted, "complete": True}
