"""python -m cbisim.bootstrap <module> args... : run a real CBI entry point with only the
directory-enumeration interposer installed (key from CBISIM_SCANDIR_KEY)."""
import os
import runpy
import sys


def main():
    module = sys.argv[1]
    key = os.environ.get("CBISIM_SCANDIR_KEY", "")
    from cbisim import seams

    if key != "":
        seams.install_scandir(key)
    seams.install_pool(key or "0")
    sys.argv = [module] + sys.argv[2:]
    import warnings

    warnings.simplefilter("ignore")
    runpy.run_module(module, run_name="__main__", alter_sys=True)


if __name__ == "__main__":
    main()
