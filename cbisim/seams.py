"""Seams the simulator owns. All are installed from outside codebasin (module attributes)."""
import hashlib
import os

_real_scandir = os.scandir
_real_listdir = os.listdir

STATS = {"scandir_calls": 0, "scandir_nonidentity": 0, "evictions": 0, "memo_calls": 0,
         "realpath_evictions": 0, "pools": 0, "pool_tasks": 0, "pool_reorders": 0}


def _order(names, key):
    """Deterministic pseudo-random order of names decided by `key` (None/'' = by name)."""
    if key in (None, ""):
        return sorted(names)
    return sorted(names, key=lambda n: hashlib.sha256(f"{key}/{n}".encode()).digest())


class _ScandirCtx:
    """What os.scandir returns: an iterator (os.walk calls next() on it) that is also a context manager."""

    def __init__(self, entries):
        self._it = iter(entries)

    def __iter__(self):
        return self

    def __next__(self):
        return next(self._it)

    def __enter__(self):
        return self

    def __exit__(self, *a):
        return False

    def close(self):
        pass


def install_scandir(key):
    """Entries are the real ones; only the order of enumeration is decided by the schedule."""

    def scandir(path="."):
        with _real_scandir(path) as it:
            ents = list(it)
        STATS["scandir_calls"] += 1
        byname = {e.name: e for e in ents}
        order = _order(list(byname), key)
        if len(order) > 1 and order != [e.name for e in ents]:
            STATS["scandir_nonidentity"] += 1
        return _ScandirCtx([byname[n] for n in order])

    def listdir(path="."):
        return _order(_real_listdir(path), key)

    os.scandir = scandir
    os.listdir = listdir


def install_memo_eviction(points):
    """Buggify: empty the include memo of a Platform before the look-ups whose global ordinal is in
    `points` (legal: a memo is an optimisation). points: list of ints or 'all'."""
    try:
        from codebasin import platform as cbplat

        orig = cbplat.Platform.find_include_file
    except (ImportError, AttributeError):
        return  # the seam is gone after a refactoring: nothing to evict, nothing to report
    pts = points if points == "all" else set(points)

    def find_include_file(self, *a, **k):
        n = STATS["memo_calls"]
        STATS["memo_calls"] += 1
        if pts == "all" or n in pts:
            memo = getattr(self, "found_incl", None)
            if isinstance(memo, dict) and memo:
                memo.clear()
                STATS["evictions"] += 1
        return orig(self, *a, **k)

    cbplat.Platform.find_include_file = find_include_file


def install_realpath_eviction(points):
    """Buggify: empty ParserState._path_cache before scheduler-chosen canonicalisations."""
    try:
        from codebasin import finder

        orig = getattr(finder.ParserState, "_get_realpath", None)
    except (ImportError, AttributeError):
        return
    if orig is None:
        return
    pts = points if points == "all" else set(points)
    ctr = [0]

    def _get_realpath(self, path):
        n = ctr[0]
        ctr[0] += 1
        if pts == "all" or n in pts:
            c = getattr(self, "_path_cache", None)
            if isinstance(c, dict) and c:
                c.clear()
                STATS["realpath_evictions"] += 1
        return orig(self, path)

    finder.ParserState._get_realpath = _get_realpath


def install_pool(key):
    """Worker pools are simulated: tasks handed to a concurrent.futures executor run in this thread, one at a
    time, and the ORDER in which they complete is decided by the schedule (`key`), never by the operating
    system. The shipped code uses no pool; the seam exists so that a change that introduces one is explored
    under different completion orders, repeatably."""
    import concurrent.futures as cf
    import sys

    real = {"ThreadPoolExecutor": cf.ThreadPoolExecutor, "ProcessPoolExecutor": cf.ProcessPoolExecutor,
            "as_completed": cf.as_completed, "wait": cf.wait}

    def perm(fs):
        order = sorted(fs, key=lambda f: hashlib.sha256(f"{key}/pool/{f._ordinal}".encode()).digest())
        if len(fs) > 1 and order != list(fs):
            STATS["pool_reorders"] += 1
        return order

    class SimFuture(cf.Future):
        def __init__(self, fn, a, k, ordinal):
            super().__init__()
            self._sim = (fn, a, k)
            self._ordinal = ordinal

        def _sim_run(self):
            if self._sim is None:
                return
            fn, a, k = self._sim
            self._sim = None
            if not self.set_running_or_notify_cancel():
                return
            try:
                self.set_result(fn(*a, **k))
            except BaseException as e:  # noqa
                self.set_exception(e)

        def result(self, timeout=None):
            self._sim_run()
            return super().result(0)

        def exception(self, timeout=None):
            self._sim_run()
            return super().exception(0)

    counter = [0]

    class SimPool:
        def __init__(self, *a, **k):
            self._fs = []
            STATS["pools"] += 1

        def submit(self, fn, /, *a, **k):
            f = SimFuture(fn, a, k, counter[0])
            counter[0] += 1
            self._fs.append(f)
            STATS["pool_tasks"] += 1
            return f

        def map(self, fn, *iterables, timeout=None, chunksize=1):
            fs = [self.submit(fn, *args) for args in zip(*iterables)]
            for f in perm(fs):      # side effects happen in completion order, results come back in order
                f._sim_run()
            return (f.result() for f in fs)

        def shutdown(self, wait=True, cancel_futures=False):
            for f in perm([f for f in self._fs if f._sim is not None]):
                if cancel_futures:
                    f._sim = None
                    f.cancel()
                else:
                    f._sim_run()

        def __enter__(self):
            return self

        def __exit__(self, *a):
            self.shutdown()
            return False

    def as_completed(fs, timeout=None):
        fs = list(dict.fromkeys(fs))
        if not all(isinstance(f, SimFuture) for f in fs):
            return real["as_completed"](fs, timeout)

        def gen():
            for f in perm(sorted(fs, key=lambda f: f._ordinal)):
                f._sim_run()
                yield f

        return gen()

    def wait(fs, timeout=None, return_when=cf.ALL_COMPLETED):
        fs = list(dict.fromkeys(fs))
        if not all(isinstance(f, SimFuture) for f in fs):
            return real["wait"](fs, timeout, return_when)
        for f in perm(sorted(fs, key=lambda f: f._ordinal)):
            f._sim_run()
            if return_when != cf.ALL_COMPLETED:
                break
        return real["wait"](fs, 0, return_when)

    sim = {"ThreadPoolExecutor": SimPool, "ProcessPoolExecutor": SimPool, "as_completed": as_completed, "wait": wait}
    for name, obj in sim.items():
        setattr(cf, name, obj)
    # names already bound by `from concurrent.futures import ...` in modules of the system under test
    for mname, mod in list(sys.modules.items()):
        if mod is None or not (mname == "codebasin" or mname.startswith("codebasin.")):
            continue
        for attr, val in list(vars(mod).items()):
            for name, obj in real.items():
                if val is obj:
                    setattr(mod, attr, sim[name])
