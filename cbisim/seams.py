"""Seams the simulator owns. All are installed from outside codebasin (module attributes)."""
import hashlib
import os

_real_scandir = os.scandir
_real_listdir = os.listdir

STATS = {"scandir_calls": 0, "scandir_nonidentity": 0, "evictions": 0, "memo_calls": 0,
         "realpath_evictions": 0}


def _order(names, key):
    """Deterministic pseudo-random order of names decided by `key` (None/'' = by name)."""
    if key in (None, ""):
        return sorted(names)
    return sorted(names, key=lambda n: hashlib.sha256(f"{key}/{n}".encode()).digest())


class _ScandirCtx:
    def __init__(self, entries):
        self._e = entries

    def __iter__(self):
        return iter(self._e)

    def __enter__(self):
        return self

    def __exit__(self, *a):
        return False

    def close(self):
        pass


def install_scandir(key):
    """Entries are the real ones; only the order of enumeration is decided by the schedule."""

    def scandir(path="."):
        with _real_scandir(path) as it:
            ents = list(it)
        STATS["scandir_calls"] += 1
        byname = {e.name: e for e in ents}
        order = _order(list(byname), key)
        if len(order) > 1 and order != [e.name for e in ents]:
            STATS["scandir_nonidentity"] += 1
        return _ScandirCtx([byname[n] for n in order])

    def listdir(path="."):
        return _order(_real_listdir(path), key)

    os.scandir = scandir
    os.listdir = listdir


def install_memo_eviction(points):
    """Buggify: empty the include memo of a Platform before the look-ups whose global ordinal is in
    `points` (legal: a memo is an optimisation). points: list of ints or 'all'."""
    try:
        from codebasin import platform as cbplat

        orig = cbplat.Platform.find_include_file
    except (ImportError, AttributeError):
        return  # the seam is gone after a refactoring: nothing to evict, nothing to report
    pts = points if points == "all" else set(points)

    def find_include_file(self, *a, **k):
        n = STATS["memo_calls"]
        STATS["memo_calls"] += 1
        if pts == "all" or n in pts:
            memo = getattr(self, "found_incl", None)
            if isinstance(memo, dict) and memo:
                memo.clear()
                STATS["evictions"] += 1
        return orig(self, *a, **k)

    cbplat.Platform.find_include_file = find_include_file


def install_realpath_eviction(points):
    """Buggify: empty ParserState._path_cache before scheduler-chosen canonicalisations."""
    try:
        from codebasin import finder

        orig = getattr(finder.ParserState, "_get_realpath", None)
    except (ImportError, AttributeError):
        return
    if orig is None:
        return
    pts = points if points == "all" else set(points)
    ctr = [0]

    def _get_realpath(self, path):
        n = ctr[0]
        ctr[0] += 1
        if pts == "all" or n in pts:
            c = getattr(self, "_path_cache", None)
            if isinstance(c, dict) and c:
                c.clear()
                STATS["realpath_evictions"] += 1
        return orig(self, path)

    finder.ParserState._get_realpath = _get_realpath
