"""Model self-test: the reference model against gcc -E on fault-free worlds, one translation unit at a
time, run from the entry's directory with the entry's own arguments (so it also confirms the path
model).  A disagreement is a defect of the *model* (harness error), never a verdict about the SUT."""
import os
import re
import subprocess

from . import core, gen, refmodel
from . import world as W


def check_world(world, top):
    """-> (tus, mismatches list, skipped)"""
    model = refmodel.Model(world, top)
    ids = W.file_ids(world)
    rid = {v: k for k, v in ids.items()}
    tus, bad, skipped = 0, [], 0
    for p in world["platforms"]:
        for ei, e0 in enumerate(p["entries"]):
            e = W.concrete_entry(e0, top)
            if refmodel.entry_fault(e, model.root):
                continue
            cfg0 = refmodel.entry_config(e, model.root)
            if os.path.splitext(cfg0["file"])[1] in (".F90", ".f90"):
                skipped += 1
                continue
            if not os.path.isdir(cfg0["directory"]):
                skipped += 1
                continue
            if "-iquote" in W.entry_argv(e):
                skipped += 1      # honoured by gcc, ignored (with a warning) by the SUT
                continue
            if cfg0["compiler"] not in ("gcc", "g++", "clang", "clang++"):
                # multi-pass / implicit-define compilers are CBI conventions, not gcc behaviour
                skipped += 1
                continue
            tu = refmodel.TU(model, cfg0, (p["name"], ei)).run()
            if tu.events or any(tu.resolve(fi, "q", os.path.dirname(os.path.realpath(cfg0["file"]))) is None
                                for fi in cfg0["forced"]):
                # a dangling include (also a forced one) is outside the domain: gcc rejects the unit
                skipped += 1
                continue
            a = refmodel.parse_argv(W.entry_argv(e))
            cmd = ["gcc", "-E", "-P", "-x", "c"] + ["-D" + d for d in a["defines"]]
            for d in a["I"]:
                cmd += ["-I", d]
            for d in a["isystem"]:
                cmd += ["-isystem", d]
            for f in a["include"]:
                cmd += ["-include", f]
            cmd.append(e["file"])
            pr = subprocess.run(cmd, cwd=cfg0["directory"], capture_output=True, text=True, timeout=60)
            tus += 1
            # (free text in a disabled block makes gcc remark on an open quote; it still skips the block)
            diag = [l for l in pr.stderr.split("\n") if re.search(r"\b(warning|error):", l)]
            if pr.returncode != 0 or any("missing terminating" not in l for l in diag) or (pr.stderr.strip() and not diag):
                bad.append({"entry": [p["name"], ei], "gcc_diagnostic": pr.stderr[:400]})
                continue
            got = set(re.findall(r"int F(\d+)_L(\d+);", pr.stdout))
            exp = set()
            for rel, ls in tu.used.items():
                kinds = W.render_file(world, rel)
                fid = ids.get(world["files"][rel].get("copy_of"), ids[rel])
                for l in ls:
                    if kinds[l - 1][0] == "code":
                        exp.add((str(fid), str(l)))
            if got != exp:
                bad.append({"entry": [p["name"], ei], "only_gcc": sorted(got - exp)[:5], "only_model": sorted(exp - got)[:5],
                            "cmd": " ".join(cmd).replace(top, "@TOP@")})
    return tus, bad, skipped


def run(n, verif_seed=0, profile="c04", slot_base=800000):
    tot = {"worlds": 0, "tus": 0, "mismatches": 0, "skipped": 0, "invalid": 0, "examples": []}
    for i in range(n):
        seed = core.derive_seed("gcc-" + profile, verif_seed, i)
        r = core.rng_for(seed, "gen")
        world, cfg = gen.gen_world(r, profile)
        sc = core.Scratch(slot_base + i, "gcc")
        top = sc.fresh("t")
        try:
            W.materialise(world, top)
            if profile != "c13":
                core.repair_missing(world, top)
            try:
                tus, bad, sk = check_world(world, top)
            except refmodel.InvalidWorld:
                tot["invalid"] += 1
                continue
            tot["worlds"] += 1
            tot["tus"] += tus
            tot["skipped"] += sk
            tot["mismatches"] += len(bad)
            for b in bad[:2]:
                if len(tot["examples"]) < 5:
                    tot["examples"].append({"seed": seed, **b})
        finally:
            sc.cleanup()
    return tot


def check_snippets(out):
    """Every verbatim snippet must be accepted by gcc without a diagnostic for the -D sets the generator draws."""
    import itertools
    import tempfile

    bad = 0
    vals = {"A": [None, "", "2"], "B": [None, "", "1"], "C": [None, "2"], "V": [None, "1", "0", "2", "0x2", "02", "2U", "2UL"],
            "W": [None, "1", "0", "2", "02", "2L"]}
    with tempfile.TemporaryDirectory(dir=core.SCRATCH_BASE) as td:
        for i, sn in enumerate(gen.RAW_SNIPPETS):
            src = os.path.join(td, f"s{i}.c")
            with open(src, "w") as f:
                f.write("\n".join(l.replace("@", "1") for l in sn) + "\n")
            for combo in itertools.product(*[[(k, v) for v in vs] for k, vs in vals.items()]):
                if hash(combo) % 7:      # a seventh of the 2 160 combinations per snippet
                    continue
                defs = ["-D" + k + ("=" + v if v not in (None, "1") or k in "ABC" and v == "1" else "") for k, v in combo if v is not None or False]
                defs = [d for (k, v), d in zip([c for c in combo if c[1] is not None], defs)]
                pr = subprocess.run(["gcc", "-E", "-P", "-x", "c"] + defs + [src], capture_output=True, text=True)
                if pr.returncode or pr.stderr.strip():
                    bad += 1
                    if bad <= 3:
                        out(f"[selftest model] snippet {i} rejected by gcc with {defs}: {pr.stderr[:200]}")
    out(f"[selftest model] verbatim snippets: {len(gen.RAW_SNIPPETS)} snippets, {bad} gcc diagnostics")
    return bad


def main(n, out):
    if check_snippets(out):
        return 2
    res = {}
    for prof in ("c04", "c13"):
        res[prof] = run(n, profile=prof)
        out(f"[selftest model] profile={prof}: {res[prof]}")
    return 0 if all(v["mismatches"] == 0 for v in res.values()) else 2
