"""Runners: fork-fresh children, zygote interpreters (one per hash seed), real subprocesses.

The process calling fork_call() must have *imported* codebasin but never executed any of it, so
every child starts from pristine module globals (the simulator's "restart").
"""
import faulthandler
import json
import os
import select
import signal
import struct
import subprocess
import sys
import time
import traceback

PY = sys.executable
VERIF = os.path.dirname(os.path.dirname(os.path.abspath(__file__)))
REPO = os.environ.get("CBISIM_REPO", "/repo")
RUN_TIMEOUT = float(os.environ.get("CBISIM_RUN_TIMEOUT", "60"))


class HarnessError(Exception):
    pass


class ChildTimeout(HarnessError):
    pass


def preload():
    """Import everything a child may need, without executing any codebasin function."""
    import warnings

    warnings.simplefilter("ignore")
    import codebasin  # noqa
    import codebasin.config  # noqa
    import codebasin.finder  # noqa
    import codebasin.report  # noqa
    import codebasin.__main__  # noqa
    import codebasin.tree  # noqa
    import codebasin.coverage.__main__  # noqa

    _memoise_check_schema()
    if os.environ.get("CBISIM_PRELOAD_MPL", "1") == "1":
        try:
            import matplotlib

            matplotlib.use("Agg")
            from matplotlib import pyplot  # noqa
            from scipy.cluster import hierarchy  # noqa
            from scipy.spatial.distance import squareform  # noqa
        except Exception:
            pass


_schema_ok = set()


def _memoise_check_schema():
    """jsonschema.validate() re-validates the *schema* against its metaschema on every call (about
    20 ms per call, 70 ms per fresh process for the four compiler definition files).  That check is a
    pure function of the schema text, so it is memoised here, keyed by the schema's content, and
    pre-warmed with the schema files of the tree under test; children inherit the memo through fork().
    Validation of instances is untouched."""
    import glob

    import jsonschema
    from jsonschema import validators
    from jsonschema.exceptions import best_match

    if getattr(jsonschema.validate, "_cbisim", False):
        return

    def validate(instance, schema, cls=None, *args, **kwargs):
        if cls is None:
            cls = validators.validator_for(schema)
        key = json.dumps(schema, sort_keys=True)
        if key not in _schema_ok:
            cls.check_schema(schema)
            _schema_ok.add(key)
        validator = cls(schema, *args, **kwargs)
        error = best_match(validator.iter_errors(instance))
        if error is not None:
            raise error

    validate._cbisim = True
    jsonschema.validate = validate
    validators.validate = validate
    for p in sorted(glob.glob(os.path.join(REPO, "codebasin", "schema", "*.schema"))):
        try:
            with open(p) as f:
                sch = json.load(f)
            validators.validator_for(sch).check_schema(sch)
            _schema_ok.add(json.dumps(sch, sort_keys=True))
        except Exception:  # noqa - an invalid schema is left for the SUT to report
            pass


def _read_all(fd, deadline, pid):
    chunks = []
    while True:
        left = deadline - time.monotonic()
        if left <= 0:
            raise ChildTimeout(f"child {pid} exceeded {RUN_TIMEOUT}s")
        r, _, _ = select.select([fd], [], [], min(left, 1.0))
        if not r:
            continue
        b = os.read(fd, 1 << 16)
        if not b:
            break
        chunks.append(b)
    return b"".join(chunks)


def fork_call(func, *args, timeout=None):
    """Run func(*args) in a forked child; return its JSON-able result.
    The child's exception (outside what func itself catches) -> HarnessError."""
    timeout = timeout or RUN_TIMEOUT
    rfd, wfd = os.pipe()
    sys.stdout.flush()
    sys.stderr.flush()
    pid = os.fork()
    if pid == 0:
        code = 0
        try:
            os.close(rfd)
            faulthandler.dump_traceback_later(timeout + 5, exit=True)
            try:
                res = {"ok": func(*args)}
            except BaseException as e:  # noqa
                res = {"harness_exc": f"{type(e).__name__}: {e}", "tb": traceback.format_exc()}
            data = json.dumps(res).encode()
            off = 0
            while off < len(data):
                off += os.write(wfd, data[off:off + (1 << 16)])
        except BaseException:  # noqa
            code = 3
        finally:
            os._exit(code)
    os.close(wfd)
    try:
        data = _read_all(rfd, time.monotonic() + timeout, pid)
    except ChildTimeout:
        try:
            os.kill(pid, signal.SIGKILL)
        except ProcessLookupError:
            pass
        os.waitpid(pid, 0)
        os.close(rfd)
        raise
    os.close(rfd)
    _, status = os.waitpid(pid, 0)
    if not data:
        raise HarnessError(f"child died without result (status {status})")
    res = json.loads(data)
    if "harness_exc" in res:
        raise HarnessError("child raised: " + res["harness_exc"] + "\n" + res.get("tb", ""))
    return res["ok"]


# ------------------------------------------------------------------------------------ zygotes
class Zygote:
    """A long-lived interpreter started with its own PYTHONHASHSEED; executes jobs fork-fresh."""

    def __init__(self, hashseed):
        env = dict(os.environ)
        env["PYTHONHASHSEED"] = str(hashseed)
        env["PYTHONPATH"] = REPO + os.pathsep + VERIF
        env["PYTHONDONTWRITEBYTECODE"] = "1"
        self.hashseed = hashseed
        self.p = subprocess.Popen([PY, "-m", "cbisim.zygote_main"], stdin=subprocess.PIPE,
                                  stdout=subprocess.PIPE, stderr=subprocess.DEVNULL, env=env,
                                  cwd=VERIF)
        hello = self._recv(time.monotonic() + 120)
        if hello.get("hello") != hashseed:
            raise HarnessError(f"zygote handshake failed: {hello}")

    def _recv(self, deadline):
        fd = self.p.stdout.fileno()

        def rd(n):
            buf = b""
            while len(buf) < n:
                left = deadline - time.monotonic()
                if left <= 0:
                    raise ChildTimeout("zygote reply timed out")
                r, _, _ = select.select([fd], [], [], min(left, 1.0))
                if not r:
                    continue
                b = os.read(fd, n - len(buf))
                if not b:
                    raise HarnessError("zygote closed its pipe")
                buf += b
            return buf

        (n,) = struct.unpack("<I", rd(4))
        return json.loads(rd(n))

    def call(self, funcname, *args, timeout=None):
        timeout = timeout or RUN_TIMEOUT
        data = json.dumps({"func": funcname, "args": args, "timeout": timeout}).encode()
        self.p.stdin.write(struct.pack("<I", len(data)) + data)
        self.p.stdin.flush()
        try:
            res = self._recv(time.monotonic() + timeout + 15)
        except HarnessError:
            self.close(kill=True)
            raise
        if "harness_exc" in res:
            raise HarnessError("zygote job failed: " + res["harness_exc"])
        return res["ok"]

    def close(self, kill=False):
        try:
            if kill:
                self.p.kill()
            else:
                self.p.stdin.close()
            self.p.wait(timeout=10)
        except Exception:
            try:
                self.p.kill()
            except Exception:
                pass


_zygotes = {}


def zygote(hashseed):
    z = _zygotes.get(hashseed)
    if z is None or z.p.poll() is not None:
        z = _zygotes[hashseed] = Zygote(hashseed)
    return z


def close_zygotes():
    for z in list(_zygotes.values()):
        z.close()
    _zygotes.clear()


def run_fresh(funcname, *args, hashseed=None, timeout=None):
    """Execute cbisim.sut.<funcname>(*args) in a pristine interpreter state.
    hashseed None -> fork of this process; otherwise fork inside the zygote with that hash seed."""
    if hashseed is None:
        from . import sut

        return fork_call(getattr(sut, funcname), *args, timeout=timeout)
    return zygote(hashseed).call(funcname, *args, timeout=timeout)


# ------------------------------------------------------------------------------ real subprocess
def run_cli_subprocess(module, argv, cwd, hashseed, scandir_key=None, timeout=None):
    """python -m <module> through the real entry point, with only the scandir interposer installed
    (via cbisim.bootstrap). -> dict(rc, out, err)"""
    env = dict(os.environ)
    env["PYTHONHASHSEED"] = str(hashseed)
    env["PYTHONPATH"] = REPO + os.pathsep + VERIF
    env["PYTHONDONTWRITEBYTECODE"] = "1"
    env["PYTHONWARNINGS"] = "ignore"
    env["CBISIM_SCANDIR_KEY"] = "" if scandir_key is None else str(scandir_key)
    cmd = [PY, "-m", "cbisim.bootstrap", module] + list(argv)
    try:
        p = subprocess.run(cmd, cwd=cwd, env=env, capture_output=True, text=True,
                           timeout=timeout or max(RUN_TIMEOUT, 120))
    except subprocess.TimeoutExpired:
        raise ChildTimeout(f"subprocess {module} timed out")
    return {"rc": p.returncode, "out": p.stdout, "err": p.stderr}
