"""Child-side drivers: everything here runs inside a fork-fresh child and is the only code that
executes codebasin. Arguments and results are JSON-able."""
import io
import json
import logging
import os
import sys
import traceback
import warnings


def _norm(s, top):
    return s.replace(top, "@TOP@") if isinstance(s, str) else s


class _Cap(logging.Handler):
    def __init__(self):
        super().__init__(level=logging.DEBUG)
        self.recs = []

    def emit(self, r):
        try:
            msg = r.getMessage()
        except Exception:  # noqa
            msg = str(r.msg)
        self.recs.append((r.levelname, r.name, msg))


def _install_seams(spec):
    from . import seams

    if spec.get("scandir_key") not in (None, ""):
        seams.install_scandir(spec["scandir_key"])
    seams.install_pool(spec.get("pool_key") or spec.get("scandir_key") or "0")
    if spec.get("evict") is not None:
        seams.install_memo_eviction(spec["evict"])
    if spec.get("rp_evict") is not None:
        seams.install_realpath_eviction(spec["rp_evict"])


def _exc_info(e):
    tb = traceback.extract_tb(e.__traceback__)
    where = ""
    for fr in reversed(tb):
        if "codebasin" in fr.filename:
            where = f"{os.path.basename(fr.filename)}:{fr.name}"
            break
    return {"type": type(e).__name__, "msg": str(e)[:300], "where": where}


def _observe_state(state, codebase, top, want_setmap=True):
    from codebasin.preprocessor import CodeNode

    attr = {}
    for fn in sorted(state.get_filenames()):
        tree = state.get_tree(fn)
        amap = state.get_map(fn)
        lines = {}
        for node in tree.walk():
            if isinstance(node, CodeNode):
                plats = sorted(amap[node]) if node in amap else []
                for l in node.lines:
                    if str(l) in lines:
                        lines[str(l)] = sorted(set(lines[str(l)]) | set(plats)) + ["<DUPLINE>"]
                    else:
                        lines[str(l)] = plats
        attr[os.path.relpath(fn, top)] = lines
    obs = {"attr": attr}
    obs["members"] = [os.path.relpath(f, top) for f in codebase]
    if want_setmap:
        sm = state.get_setmap(codebase)
        obs["setmap"] = sorted([[sorted(k), v] for k, v in sm.items()])
        obs["setmap_order"] = [sorted(k) for k in sm.keys()]
    return obs


def api_run(spec):
    """spec: {top, root(abs), cwd(abs), analyses:[{platforms:[{name, db(abs)}], excludes:[...]}],
              scandir_key, evict, rp_evict}
    -> list of observations, one per analysis (run sequentially in this one process)."""
    warnings.simplefilter("ignore")
    top = spec["top"]
    os.chdir(spec["cwd"])
    _install_seams(spec)
    from codebasin import CodeBase, config, finder

    from . import seams

    lg = logging.getLogger("codebasin")
    lg.setLevel(logging.DEBUG)
    out = []
    for an in spec["analyses"]:
        cap = _Cap()
        lg.addHandler(cap)
        obs = {"exc": None}
        try:
            configuration = {}
            dbs = {}
            for p in an["platforms"]:
                db = config.load_database(p["db"], spec["root"])
                configuration[p["name"]] = db
                dbs[p["name"]] = json.loads(_norm(json.dumps(db), top))
            obs["db"] = dbs
            obs["n_events_after_db"] = len(cap.recs)
            if not an.get("db_only"):
                cb_dirs = spec.get("codebase_dirs") or [spec["root"]]
                codebase = CodeBase(*cb_dirs, exclude_patterns=list(an.get("excludes", [])))
                state = finder.find(spec["root"], codebase, configuration)
                obs.update(_observe_state(state, codebase, top))
                if an.get("metrics"):
                    from codebasin import report

                    sm = state.get_setmap(codebase)
                    obs["metrics"] = {"divergence": repr(report.divergence(sm)),
                                      "coverage": repr(report.coverage(sm)),
                                      "avg_coverage": repr(report.average_coverage(sm))}
        except (Exception, SystemExit) as e:  # noqa  -- an exception raised by the SUT is an observation
            obs["exc"] = _exc_info(e)           # (also an exit requested from library code: argparse's error())
        finally:
            lg.removeHandler(cap)
        obs["events"] = [[lv, nm, _norm(m, top)] for lv, nm, m in cap.recs]
        out.append(obs)
        fo = spec.get("fs_ops_after")
        if fo and fo["index"] == len(out) - 1:
            # the environment changes between two analyses of one interpreter: files appear / disappear
            for op in fo["ops"]:
                if op[0] == "write":
                    os.makedirs(os.path.dirname(op[1]), exist_ok=True)
                    with open(op[1], "w") as fh:
                        fh.write(op[2])
                elif op[0] == "unlink" and os.path.lexists(op[1]):
                    os.unlink(op[1])
        rl = spec.get("relink_after")
        if rl and rl["index"] == len(out) - 1:
            # the environment changes between two analyses of one interpreter: a link is re-pointed
            os.unlink(rl["link"])
            os.symlink(rl["target"], rl["link"])
    return {"obs": out, "seam_stats": dict(seams.STATS)}


def cli_run(spec):
    """Run a front end's own main() in this (fresh) process with fd-level capture.
    spec: {top, cwd, module, argv, scandir_key, keep: [relative file names to read back]}"""
    warnings.simplefilter("ignore")
    top = spec["top"]
    os.chdir(spec["cwd"])
    if spec.get("set_pwd"):
        os.environ["PWD"] = spec["cwd"]      # what an interactive shell does after `cd <link>`
    _install_seams(spec)
    capdir = spec.get("capdir") or top
    outp = os.path.join(capdir, ".cap.out")
    errp = os.path.join(capdir, ".cap.err")
    sys.stdout.flush()
    sys.stderr.flush()
    fo = os.open(outp, os.O_WRONLY | os.O_CREAT | os.O_TRUNC, 0o600)
    fe = os.open(errp, os.O_WRONLY | os.O_CREAT | os.O_TRUNC, 0o600)
    os.dup2(fo, 1)
    os.dup2(fe, 2)
    module = spec["module"]
    sys.argv = [module] + list(spec["argv"])
    rc = None
    exc = None
    try:
        if module == "codebasin":
            from codebasin import __main__ as m
        elif module == "codebasin.tree":
            from codebasin import tree as m
        elif module == "codebasin.coverage":
            from codebasin.coverage import __main__ as m
        else:
            raise ValueError(module)
        try:
            m.main()
            rc = 0
        except SystemExit as e:
            rc = e.code if isinstance(e.code, int) else (0 if e.code is None else 1)
        except Exception as e:  # noqa
            exc = _exc_info(e)
    finally:
        try:
            sys.stdout.flush()
            sys.stderr.flush()
        except Exception:  # noqa
            pass
        logging.shutdown()
    res = {"rc": rc, "exc": exc}
    with open(outp, errors="replace") as f:
        res["out"] = _norm(f.read(), top)
    with open(errp, errors="replace") as f:
        res["err"] = _norm(f.read(), top)[-4000:]
    res["files"] = {}
    for name in spec.get("keep", ["cbi.log"]):
        p = os.path.join(spec["cwd"], name)
        if os.path.exists(p):
            with open(p, errors="replace") as f:
                res["files"][name] = _norm(f.read(), top)
    from . import seams

    res["seam_stats"] = dict(seams.STATS)
    return res


def platform_history(spec):
    """Driver 1 of C04: a history of look-ups against one real Platform object.
    spec: {top, root, include_paths:[abs], ops:[[spelling, includer_dir(abs), is_system]], evict}
    -> {results: [relpath|None...]}  or {"unavailable": reason}"""
    warnings.simplefilter("ignore")
    top = spec["top"]
    try:
        from codebasin.platform import Platform

        plat = Platform("p", spec["root"])
        for d in spec["include_paths"]:
            plat.add_include_path(d)
        fn = plat.find_include_file
    except Exception as e:  # noqa
        return {"unavailable": f"{type(e).__name__}: {e}"}
    res = []
    evict = set(spec.get("evict") or [])
    for i, (sp, d, sysinc) in enumerate(spec["ops"]):
        if i in evict:
            memo = getattr(plat, "found_incl", None)
            if isinstance(memo, dict):
                memo.clear()
        try:
            r = fn(sp, d, sysinc)
        except TypeError as e:
            return {"unavailable": f"signature: {e}"}
        res.append(None if r is None else os.path.relpath(os.path.realpath(r), top))
    return {"results": res}


def probe_hash_order(spec):
    """Probe: the iteration order of a set of the given strings in this interpreter."""
    return {"order": list(set(spec["names"])), "hashseed": os.environ.get("PYTHONHASHSEED")}


def membership(spec):
    """spec: {top, root, cwd, excludes, paths:[str]} -> {"in": [bool...]} (path in CodeBase)."""
    warnings.simplefilter("ignore")
    os.chdir(spec["cwd"])
    from codebasin import CodeBase

    cb = CodeBase(*(spec.get("codebase_dirs") or [spec["root"]]), exclude_patterns=list(spec.get("excludes", [])))
    out = []
    for p in spec["paths"]:
        try:
            out.append(bool(p in cb))
        except Exception as e:  # noqa
            out.append(f"{type(e).__name__}")
    return {"in": out}
