"""Zygote: preload codebasin, then serve jobs; each job runs in a fork-fresh child."""
import json
import os
import struct
import sys


def main():
    from cbisim import runners, sut

    runners.preload()
    inp = sys.stdin.buffer
    out = sys.stdout.buffer
    hs = os.environ.get("PYTHONHASHSEED")

    def send(obj):
        data = json.dumps(obj).encode()
        out.write(struct.pack("<I", len(data)) + data)
        out.flush()

    send({"hello": int(hs) if hs and hs.isdigit() else hs})
    while True:
        hdr = inp.read(4)
        if len(hdr) < 4:
            break
        (n,) = struct.unpack("<I", hdr)
        job = json.loads(inp.read(n))
        try:
            res = runners.fork_call(getattr(sut, job["func"]), *job["args"], timeout=job.get("timeout"))
            send({"ok": res})
        except Exception as e:  # noqa
            send({"harness_exc": f"{type(e).__name__}: {e}"})


if __name__ == "__main__":
    main()
