#!/bin/sh
# Run the thorough tier of every check once (used with `vp run`); prints the tail of each.
for id in ${*:-C13 C18 C04 C15 C08 C14}; do
  /usr/bin/time -f "%e s wall, %M KB maxrss" ./check "$id" thorough > out_$id.txt 2>&1
  echo "== $id rc=$? $(tail -3 out_$id.txt | cut -c1-600)"
done
